"""C09 — mcmc.metropolis / mcmc.nuts / mcmc._build_tree_nuts: correspondence with coq/Num/Mcmc.v, coq/Num/Nuts.v.

The code builds its own generator with `np.random.RandomState(seed)`, so the harness swaps the name `np`
*inside the module elfi.methods.mcmc* for a proxy whose `random.RandomState` is a recording subclass of
the real class (same seed, same stream: checked against an unpatched run on every case) and whose `exp`
records its arguments and values.  Nothing under /repo is edited.

Wave 3: besides single calls, HISTORIES of calls in one process (several nuts()/metropolis() calls on the same
target callable objects and on different ones, equal and different seeds/starts/settings, step size given or
searched).  Every call is recorded where it stands in the history (through the live module elfi.methods.mcmc,
with the shared callables / start objects, a recorder of its own per call) and once more as the only call ever
made: through a freshly executed image of the module's source file, brand-new callables and argument objects.
Both records are interned together and handed to Coq (Nuts.hok); python side the two records must be identical
down to every generator draw and target / gradient evaluation, and calls with identical arguments must return
identical bytes.
"""
import copy
import importlib.util
import math
import types
import numpy as np
from common import *


def fh(x):
    return float(x).hex()


def unh(s):
    return float.fromhex(s)


def cfh(s):
    return cfloat(unh(s))


def cvec(v):
    return clist([cfh(x) for x in v])


def cN(n):
    return cn(n)


# ----------------------------------------------------------------------------------------------
# targets
# ----------------------------------------------------------------------------------------------

def make_target(spec):
    kind = spec['kind']
    mu = np.array(spec['mu'], dtype=float)
    s = float(spec['scale'])
    a = float(spec.get('a', 1.0))
    b = float(spec.get('b', 1.0))

    def base(x):
        return float(-0.5 * np.sum(((x - mu) / s) ** 2))

    def f(x):
        x = np.asarray(x, dtype=float).ravel()
        if kind == 'gauss':
            return base(x)
        if kind == 'box':
            return base(x) if np.all(np.abs(x) <= a) else -np.inf
        if kind == 'flatbox':
            return 0.0 if np.all(np.abs(x) <= a) else -np.inf
        if kind == 'nanzone':
            return float('nan') if x[0] > b else base(x)
        if kind == 'posinf':
            return float('inf') if x[0] < -b else base(x)
        if kind == 'steps':
            return -0.5 * float(np.floor(np.sum(np.abs(x))))
        if kind == 'mixed':
            if x[0] > b:
                return float('nan')
            if x[0] < -b - 1.0:
                return float('inf')
            return base(x) if np.all(np.abs(x) <= a + b + 1.0) else -np.inf
        raise ValueError(kind)

    def g(x):
        x = np.asarray(x, dtype=float).ravel()
        if kind in ('flatbox', 'steps'):
            return np.zeros_like(x)
        return -(x - mu) / s ** 2

    return f, g


def good_value(v):
    return not (math.isnan(v) or v == -math.inf)


# ----------------------------------------------------------------------------------------------
# storage of the starting point / the proposal scales (wave 2): the property quantifies over
# starting points; the chain must not depend on HOW the caller stores the numbers
# ----------------------------------------------------------------------------------------------

INT_KINDS = {'i64': np.int64, 'i32': np.int32, 'i16': np.int16, 'i8': np.int8, 'u8': np.uint8, 'u16': np.uint16,
             'u32': np.uint32, 'bool': np.bool_}
FLT_KINDS = {'f64': np.float64, 'f32': np.float32, 'f16': np.float16, 'f64be': '>f8', 'f32be': '>f4'}
SEQ_KINDS = ('list', 'tuple', 'ilist', 'ituple')          # Python sequences of floats / of ints
SCALAR_KINDS = ('0d', '0di', 'pyscalar')                   # 0-d arrays (float / int) and a bare Python float
# the documented signature is `params0 : np.array` and the code reads `params0.shape` and indexes
# `samples[0, :]`: sequences and 0-d values are outside the entry point's domain.  They are explored
# anyway: IF the entry point takes them the chain must be the model's chain; an AttributeError /
# IndexError / TypeError on them is the entry point refusing the container, not a finding.
OUT_OF_DOMAIN = SEQ_KINDS + SCALAR_KINDS
INTLIKE = tuple(INT_KINDS) + ('ilist', 'ituple', '0di')
LAYOUTS_1D = ('plain', 'strided', 'negstride', 'readonly')
LAYOUTS_MET = LAYOUTS_1D + ('row2d', 'col2d')


def quantise(values, kind):
    """the numbers of `values` as they can be stored in `kind` (Python ints for integer storage, floats otherwise)"""
    out = []
    for v in values:
        if kind in INTLIKE:
            z = int(round(v))
            if kind == 'bool':
                z = 1 if z else 0
            elif kind in INT_KINDS and kind.startswith('u'):
                z = abs(z)
            if kind == 'i8':
                z = max(-128, min(127, z))
            out.append(z)
        elif kind in ('f32', 'f32be'):
            out.append(float(np.float32(v)))
        elif kind == 'f16':
            out.append(float(np.float16(v)))
        else:
            out.append(float(v))
    return out


def build_start(values, kind, layout):
    """the object handed to the sampler as params0"""
    if kind in SEQ_KINDS:
        return list(values) if kind in ('list', 'ilist') else tuple(values)
    if kind == 'pyscalar':
        return float(values[0])
    if kind == '0d':
        return np.array(float(values[0]))
    if kind == '0di':
        return np.array(int(values[0]))
    dt = INT_KINDS.get(kind) or FLT_KINDS[kind]
    a = np.array(values, dtype=dt)
    if layout == 'strided':
        big = np.full(2 * len(values) + 1, 7, dtype=dt)
        big[1::2] = a
        a = big[1::2]
    elif layout == 'negstride':
        a = np.array(list(values)[::-1], dtype=dt)[::-1]
    elif layout == 'readonly':
        a.setflags(write=False)
    elif layout == 'row2d':
        a = a.reshape(1, -1)
    elif layout == 'col2d':
        a = a.reshape(-1, 1)
    return a


def build_sigma(sigma, kind, shape):
    """the object handed to the sampler as sigma_proposals (scalar or per-dimension)"""
    if not isinstance(sigma, list):
        if kind == 'f32':
            return np.float32(sigma)
        if kind in ('i64', 'i32'):
            return INT_KINDS[kind](sigma)
        if kind in ('pyint', 'ilist'):
            return int(sigma)
        return float(sigma)
    if kind in ('list', 'ilist'):
        return list(sigma)
    dt = {'f64': np.float64, 'f32': np.float32, 'i64': np.int64, 'i32': np.int32, 'pyint': np.int64}[kind]
    a = np.array(sigma, dtype=dt)
    if len(shape) == 2:
        a = a.reshape(shape)
    return a


def cnum(v):
    return 'NI %s' % cz(v) if isinstance(v, int) and not isinstance(v, bool) else 'NF %s' % cfloat(v)


def snapshot(o):
    a = np.array(o, copy=True)
    return (str(a.dtype), a.shape, a.tobytes())


# ----------------------------------------------------------------------------------------------
# recording
# ----------------------------------------------------------------------------------------------

class Rec:
    def __init__(self):
        self.ev = []          # global event list: ('randn', arr) ('rand', u) ('exponential', e) ('exp', x, r) ('target', x, v)
        self.last_exp = None
        self.grads = []       # arguments of the gradient callable (histories only)


class RecRS(np.random.RandomState):
    """the real generator; every call used by mcmc.py is logged with the value it returned"""

    def __init__(self, seed, rec):
        super().__init__(seed)
        self._rec = rec

    def randn(self, *shape):
        v = super().randn(*shape)
        self._rec.ev.append(('randn', np.array(v, dtype=float, copy=True).ravel()))
        return v

    def rand(self, *shape):
        v = super().rand(*shape)
        self._rec.ev.append(('rand', float(v)))
        return v

    def exponential(self, *a, **k):
        v = super().exponential(*a, **k)
        self._rec.ev.append(('exponential', float(v)))
        return v


DYADIC = [0.0, 0.5, -0.5, 1.0, -1.0, 0.25, -0.25, 2.0, -2.0, 1.5, -1.5, 3.0, -0.75]


class ScriptRS:
    """a scripted generator (Metropolis only): dyadic normals, uniforms placed on and next to the value
    np.exp has just returned, so that ties of the acceptance test occur"""

    def __init__(self, seed, rec):
        self._r = random.Random(seed)
        self._rec = rec

    def randn(self, *shape):
        n = int(np.prod(shape)) if shape else 1
        v = np.array([self._r.choice(DYADIC) for _ in range(n)], dtype=float).reshape(shape)
        self._rec.ev.append(('randn', v.copy().ravel()))
        return v

    def rand(self):
        e = self._rec.last_exp
        opts = [self._r.random(), self._r.random(), 0.0]
        if e is not None and 0.0 <= e < 1.0:
            opts += [e, e, e]
            if e > 0.0:
                opts.append(float(np.nextafter(e, -1.0)))
            if np.nextafter(e, 2.0) < 1.0:
                opts.append(float(np.nextafter(e, 2.0)))
        u = float(self._r.choice(opts))
        self._rec.ev.append(('rand', u))
        return u


class NpProxy:
    def __init__(self, rec, factory):
        self._rec = rec
        self.random = types.SimpleNamespace(RandomState=factory)

    def __getattr__(self, name):
        return getattr(np, name)

    def exp(self, x):
        r = np.exp(x)
        if np.ndim(x) == 0:
            self._rec.ev.append(('exp', float(x), float(r)))
            self._rec.last_exp = float(r)
        return r


class Intern:
    def __init__(self):
        self.d = {}

    def __call__(self, key):
        if key not in self.d:
            self.d[key] = len(self.d) + 1
        return self.d[key]


def abytes(a):
    return np.ascontiguousarray(np.asarray(a, dtype=float).ravel()).tobytes()


def fbytes(x):
    return np.float64(x).tobytes()


# ----------------------------------------------------------------------------------------------
# histories (wave 3): shared callables, a fresh image of the module
# ----------------------------------------------------------------------------------------------

TSTYLES = ('func', 'method', 'callable')


class TargetBox:
    """one log-target (+ gradient) of a history.  Every call of the history that uses it is handed the SAME
    callables: 'func' = the same two function objects, 'method' = bound methods of this object (a new bound-method
    object per access, equal by == and hash: what BOLFI.sample passes, posterior.logpdf / posterior.gradient_logpdf),
    'callable' = this object itself (__call__) and a bound method.  `rec` is the recorder of the call in progress."""

    def __init__(self, spec, style, wrapnp=False):
        self.f, self.g = make_target(spec)
        self.style = style
        self.wrapnp = wrapnp
        self.rec = None

        def target(x):
            return self.logpdf(x)

        def grad(x):
            return self.gradient_logpdf(x)
        self._funcs = (target, grad)

    def logpdf(self, x):
        v = self.f(x)
        if self.rec is not None:
            self.rec.ev.append(('target', np.array(x, dtype=float, copy=True).ravel(), float(v)))
        return np.float64(v) if self.wrapnp else v

    def gradient_logpdf(self, x):
        if self.rec is not None:
            self.rec.grads.append(abytes(x))
        return self.g(x)

    def __call__(self, x):
        return self.logpdf(x)

    def callables(self):
        if self.style == 'func':
            return self._funcs
        if self.style == 'method':
            return self.logpdf, self.gradient_logpdf
        return self, self.gradient_logpdf


def fresh_module():
    """a new image of elfi/methods/mcmc.py: the module's source executed again into a new namespace, so that every
    module-level object (functions, their attributes, any module-level container) is in its initial state"""
    from elfi.methods import mcmc
    spec = importlib.util.spec_from_file_location('elfi.methods._c09_fresh_mcmc', mcmc.__file__)
    mod = importlib.util.module_from_spec(spec)
    spec.loader.exec_module(mod)
    return mod


def raw_signature(res, rec):
    """everything observable of one recorded call, as bytes: outcome, generator draws, target / exp / gradient calls"""
    sig = dict(res=(res if isinstance(res, str) else [list(res.shape), res.tobytes().hex()]))
    sig['stream'] = [[e[0], (abytes(e[1]) if e[0] == 'randn' else fbytes(e[1])).hex()] for e in rec.ev
                     if e[0] in ('randn', 'rand', 'exponential')]
    sig['target'] = [[abytes(e[1]).hex(), fbytes(e[2]).hex()] for e in rec.ev if e[0] == 'target']
    sig['exp'] = [[fbytes(e[1]).hex(), fbytes(e[2]).hex()] for e in rec.ev if e[0] == 'exp']
    sig['grad'] = [b.hex() for b in rec.grads]
    return sig


# ----------------------------------------------------------------------------------------------
# the check
# ----------------------------------------------------------------------------------------------

TKINDS_MET = ['gauss', 'gauss', 'box', 'box', 'flatbox', 'nanzone', 'posinf', 'steps', 'mixed']
TKINDS_NUTS = ['gauss', 'gauss', 'box', 'box', 'nanzone', 'posinf', 'mixed']


class C09(PropCheck):
    pid = 'C09'
    header = ('From Coq Require Import List NArith ZArith Bool PrimFloat.\n'
              'From Elfi Require Import Base.Harness Num.Mcmc Num.Nuts.\nImport ListNotations.\n')
    case_type = 'Nuts.c09top'
    preds = (('Nuts.agree_t', 'agree'), ('Nuts.ok_t', 'ok'))
    chunk = 40
    rule = ('metropolis: targets gauss/box(-inf outside)/flatbox/nanzone/posinf/steps/mixed, dims 1-3, starting point stored as '
            'float64/float32/float16/big-endian float, int64/int32/int16/int8/uint8/uint16/uint32/bool array (plain, strided view, '
            'negative-stride view, read-only, (1,d), (d,1)), and - outside the documented domain, checked only if the entry point takes '
            'them - Python list/tuple of floats or ints, 0-d arrays, bare float; scalar or per-dimension sigma stored as float64/float32/'
            'int64/int32/Python int/list; n_samples 0-14, warmup 0-6 and the boundary values 0, 1, n_samples-1, n_samples, real '
            'RandomState(seed) streams and scripted streams with '
            'uniforms on/next to the exp value (ties), valid / -inf / +inf / nan starts; non-trivial = chain with at least one '
            'accepted and one rejected proposal.  nuts: 1-D arrays dims 1-3 in the same storage kinds (plain/strided/negative-stride/'
            'read-only), n_iter 1-10, n_adapt None/0/1/n_iter-1/n_iter/random, '
            'max_depth 0-4, given or searched stepsize, same target kinds; non-trivial = run with an internal tree node that made '
            'both recursive calls and at least one accepted proposal; distinct by full case.  histories (wave 3): 2-5 calls in ONE '
            'process (nuts only / metropolis only / mixed) on 1-2 log-targets, each target ONE set of callable objects for all its calls '
            '(the same function objects / bound methods of one object / a callable instance), a pool of 1-3 starts (a start object '
            'shared between calls or rebuilt) and 1-2 seeds, settings drawn per call, step size searched (60%) or given, about 30% of the '
            'later calls repeat an earlier call exactly; every call is recorded where it stands (live module, recorder of its own) and '
            'as the only call ever made (new image of the module source, new callables and objects), both records go to Coq (Nuts.hok: '
            'result = model replay of the fresh record, same draws / search length / step sizes, single-call property on both), python '
            'side: the two raw logs (result bytes, every generator draw, every target / gradient / exp call) are identical and calls '
            'with identical arguments are bit-identical; non-trivial = two or more calls on one target callable returned a chain')
    trusted = ('the harness proxy for the name `np` inside elfi.methods.mcmc (recording RandomState subclass, recording exp); '
               'its transparency is re-tested on every seeded case against an unpatched run (bit-identical chain)',
               'NUTS: interning of arrays/floats by their bytes; the U-turn table is recomputed by the harness with np.inner on the logged arrays',
               'histories: "the call made alone" is realised in the harness process by executing the source file of elfi.methods.mcmc into a '
               'new module object and building new callables / argument objects (state kept outside that module and not keyed on the '
               'callables or arguments would be shared by both records; it would still show as a difference between calls with identical arguments '
               'or against the independent RandomState(seed) stream)')

    # -- generation ------------------------------------------------------------------------------
    def _target_spec(self, r, d, kinds):
        kind = r.choice(kinds)
        return dict(kind=kind, mu=[r.choice([0.0, 0.0, 0.5, -1.0]) for _ in range(d)],
                    scale=r.choice([0.5, 1.0, 1.0, 2.0]), a=r.choice([0.5, 1.0, 2.0]), b=r.choice([0.3, 1.0, 2.0]))

    def _kind(self, r, layouts):
        """storage of the starting point: (kind, layout)"""
        u = r.random()
        if u < 0.42:
            kind = 'f64'
        elif u < 0.68:
            kind = r.choice(['i64', 'i64', 'i32', 'i32', 'i16', 'i8', 'u8', 'u16', 'u32', 'bool'])
        elif u < 0.92:
            kind = r.choice(['f32', 'f32', 'f32', 'f16', 'f64be', 'f32be'])
        else:
            kind = r.choice(OUT_OF_DOMAIN)
        layout = 'plain' if kind in OUT_OF_DOMAIN else r.choice(('plain', 'plain') + tuple(layouts))
        return kind, layout

    def _start(self, r, spec, d, how, kind='f64'):
        f, _ = make_target(spec)
        for _ in range(200):
            if kind in INTLIKE:
                x = [r.choice([0, 0, 1, -1, 2, -2, 3, r.randint(-4, 4)]) for _ in range(d)]
            else:
                x = [r.choice([0.0, 0.1, -0.2, 0.4, r.uniform(-3, 3), r.uniform(-0.5, 0.5)]) for _ in range(d)]
            x = quantise(x, kind)
            v = f(np.array(x, dtype=float))
            if how == 'valid' and math.isfinite(v):
                return x
            if how == 'neginf' and v == -math.inf:
                return x
            if how == 'posinf' and v == math.inf:
                return x
            if how == 'nan' and math.isnan(v):
                return x
        if how in ('neginf', 'posinf', 'nan'):
            for _ in range(200):
                x = quantise([r.choice([-1, 1]) * r.uniform(2, 6)] + [r.uniform(-0.5, 0.5) for _ in range(d - 1)], kind)
                v = f(np.array(x, dtype=float))
                if (how == 'neginf' and v == -math.inf) or (how == 'posinf' and v == math.inf) or (how == 'nan' and math.isnan(v)):
                    return x
        return None

    def _sigma(self, r, d, layout):
        """proposal scales: (sigma, sigma_kind); integer storage gets integer scales"""
        kind = r.choice(['f64'] * 8 + ['f32', 'f32', 'i64', 'i64', 'i32', 'pyint', 'list', 'ilist'])
        if kind in ('i64', 'i32', 'pyint', 'ilist'):
            sc = r.choice([1, 1, 2, 3])
            sigma = sc if r.random() < 0.3 else [r.choice([1, 1, 2, 3]) for _ in range(d)]
        else:
            sc = r.choice([0.1, 0.5, 1.0, 1.0, 3.0, 10.0])
            sigma = sc if r.random() < 0.3 else [sc * r.choice([0.5, 1.0, 2.0]) for _ in range(d)]
            if kind == 'f32':
                sigma = quantise(sigma, 'f32') if isinstance(sigma, list) else quantise([sigma], 'f32')[0]
        if kind in ('list', 'ilist') and layout == 'col2d' and isinstance(sigma, list):
            kind = 'f64' if kind == 'list' else 'i64'      # a flat list does not broadcast against (d,1)
        return sigma, kind

    def gen_met(self, r):
        d = r.choice([1, 1, 2, 2, 3])
        kind, layout = self._kind(r, LAYOUTS_MET)
        if kind in SCALAR_KINDS:
            d = 1
        spec = self._target_spec(r, d, TKINDS_MET)
        how = r.choice(['valid'] * 12 + ['neginf', 'posinf', 'nan'])
        x0 = self._start(r, spec, d, how, kind)
        if x0 is None:
            how = 'valid'
            x0 = self._start(r, spec, d, how, kind) or quantise([0.0] * d, kind)
        if kind == 'i64' and spec['kind'] == 'gauss' and r.random() < 0.1:
            x0[0] = r.choice([2 ** 53 + 1, -(2 ** 53) - 1, 2 ** 40 + 1])     # int -> binary64 happens once, round to nearest even
        sigma, skind = self._sigma(r, d, layout)
        rs = 'script' if (r.random() < 0.3 or (spec['kind'] in ('steps', 'flatbox') and r.random() < 0.6)) else 'seed'
        n = r.choice([0, 1, 2, 3, 5, 8, 11, 14])
        wsel = r.choice(['0', '0', '1', 'n-1', 'n', 'other', 'other', 'other'])
        warmup = {'0': 0, '1': 1, 'n-1': max(n - 1, 0), 'n': n}.get(wsel)
        if warmup is None:
            warmup = r.choice([2, 3, 6])
        case = dict(alg='metropolis', d=d, target=spec, x0=x0, x0_kind=kind, x0_layout=layout, sigma=sigma, sigma_kind=skind, n=n,
                    warmup=warmup, seed=r.choice([0, 1, r.randrange(2 ** 32), r.randrange(1000)]),
                    rs=rs, shape2d=(layout == 'row2d'), ret=r.choice(['float', 'np']))
        self.bump('met:target=' + spec['kind'])
        self.bump('met:start=' + how)
        self.bump('met:rs=' + rs)
        self.bump('met:d=%d' % d)
        self.bump('met:x0_kind=' + kind)
        self.bump('met:x0_layout=' + layout)
        self.bump('met:sigma_kind=' + skind + ('/scalar' if not isinstance(sigma, list) else '/vector'))
        self.bump('met:warmup=' + wsel)
        return case

    def gen_nuts(self, r, edge=False):
        d = r.choice([1, 2, 2, 3])
        kind, layout = self._kind(r, LAYOUTS_1D)
        if kind in SCALAR_KINDS:
            d = 1
        spec = self._target_spec(r, d, TKINDS_NUTS)
        how = r.choice(['valid'] * 14 + ['neginf', 'posinf', 'nan'])
        x0 = self._start(r, spec, d, how, kind)
        if x0 is None:
            how = 'valid'
            x0 = self._start(r, spec, d, how, kind) or quantise([0.0] * d, kind)
        n_iter = r.choice([1, 2, 3, 4, 6, 8, 10])
        if edge:
            n_iter = r.choice([1, 2, 2, 3, 5])
            n_adapt = r.choice([None, n_iter - 1]) if n_iter <= 2 else n_iter - 1
        else:
            n_adapt = r.choice([None, None, 0, 1, n_iter, n_iter - 1, r.randint(0, n_iter + 2)])
        case = dict(alg='nuts', d=d, target=spec, x0=x0, x0_kind=kind, x0_layout=layout, n_iter=n_iter, n_adapt=n_adapt,
                    max_depth=r.choice([0, 1, 2, 2, 3, 3, 4]), stepsize=r.choice([None, 0.1, 0.3, 0.5, 1.5]),
                    target_prob=r.choice([0.6, 0.6, 0.8]), seed=r.choice([0, 1, r.randrange(2 ** 32), r.randrange(1000)]))
        self.bump('nuts:target=' + spec['kind'])
        self.bump('nuts:start=' + how)
        self.bump('nuts:n_adapt=' + ('default' if n_adapt is None else 'n_iter-1' if n_adapt == n_iter - 1 else
                                     '0' if n_adapt == 0 else '1' if n_adapt == 1 else 'other'))
        self.bump('nuts:stepsize=' + ('search' if case['stepsize'] is None else 'given'))
        self.bump('nuts:max_depth=%d' % case['max_depth'])
        self.bump('nuts:x0_kind=' + kind)
        self.bump('nuts:x0_layout=' + layout)
        return case

    def gen_history(self, r):
        """2-5 calls in one process: 1-2 log-targets (each ONE set of callable objects for all its calls), a small pool of
        starts and seeds, so that calls share a target / start / seed or not; about a third of the later calls repeat an
        earlier call exactly"""
        mode = r.choice(['nuts'] * 5 + ['mixed'] * 2 + ['met'] * 2)
        d = r.choice([1, 2, 2, 3])
        kinds = TKINDS_MET if mode == 'met' else TKINDS_NUTS
        nt = r.choice([1, 1, 2])
        targets = [self._target_spec(r, d, kinds) for _ in range(nt)]
        styles = [r.choice(TSTYLES) for _ in range(nt)]
        wrapnp = [mode == 'met' and r.random() < 0.5 for _ in range(nt)]
        starts = []
        for _ in range(r.choice([1, 2, 2, 3])):
            kind, layout = ('f64', 'plain')
            if r.random() < 0.3:
                kind, layout = self._kind(r, LAYOUTS_1D)
                if kind in OUT_OF_DOMAIN:
                    kind, layout = 'f64', r.choice(LAYOUTS_1D)
            how = r.choice(['valid'] * 12 + ['neginf', 'nan'])
            spec = r.choice(targets)
            x0 = self._start(r, spec, d, how, kind) or self._start(r, spec, d, 'valid', kind) or quantise([0.0] * d, kind)
            starts.append(dict(x0=x0, kind=kind, layout=layout))
        seeds = [r.choice([0, 1, r.randrange(2 ** 32), r.randrange(1000)]) for _ in range(r.choice([1, 2, 2]))]
        calls = []
        n_rep = 0
        for _ in range(r.choice([2, 2, 3, 3, 4, 5])):
            if calls and r.random() < 0.3:
                calls.append(copy.deepcopy(r.choice(calls)))          # the same call again
                n_rep += 1
                continue
            alg = 'nuts' if mode == 'nuts' else 'metropolis' if mode == 'met' else r.choice(['nuts', 'metropolis'])
            ts, ss = r.randrange(nt), r.randrange(len(starts))
            st = starts[ss]
            c = dict(alg=alg, d=d, tslot=ts, sslot=ss, share_start=r.random() < 0.6, target=targets[ts], x0=list(st['x0']),
                     x0_kind=st['kind'], x0_layout=st['layout'], seed=r.choice(seeds))
            if alg == 'nuts':
                n_iter = r.choice([1, 2, 3, 4, 6])
                c.update(n_iter=n_iter, n_adapt=r.choice([None, None, 0, 1, n_iter, n_iter - 1, r.randint(0, n_iter + 1)]),
                         max_depth=r.choice([0, 1, 2, 2, 3]), stepsize=r.choice([None] * 6 + [0.1, 0.3, 0.5, 1.5]),
                         target_prob=r.choice([0.6, 0.6, 0.8]))
            else:
                sigma, skind = self._sigma(r, d, st['layout'])
                c.update(sigma=sigma, sigma_kind=skind, n=r.choice([0, 1, 2, 3, 5, 8]), warmup=r.choice([0, 0, 1, 2, 3]), rs='seed',
                         ret='np' if wrapnp[ts] else 'float')
            calls.append(c)
        search = {}
        for c in calls:
            if c['alg'] == 'nuts':
                self.bump('hist:nuts_stepsize=' + ('search' if c['stepsize'] is None else 'given'))
                if c['stepsize'] is None:
                    search[c['tslot']] = search.get(c['tslot'], 0) + 1
        self.bump('hist:mode=' + mode)
        self.bump('hist:n_calls=%d' % len(calls))
        self.bump('hist:n_targets=%d' % nt)
        self.bump('hist:n_repeated_calls=%d' % n_rep)
        self.bump('hist:searched_stepsize_calls_on_one_target=%d' % max([0] + list(search.values())))
        for sty in styles:
            self.bump('hist:callable=' + sty)
        self.bump('hist:shared_start_object=%s' % any(c['share_start'] for c in calls))
        return dict(alg='history', d=d, mode=mode, targets=targets, styles=styles, wrapnp=wrapnp, calls=calls)

    def generate(self):
        r = self.rng
        k = 1 if self.tier == 'quick' else 12
        for _ in range(600 * k):
            yield self.gen_met(r)
        for _ in range(220 * k):
            yield self.gen_nuts(r)
        for _ in range(30 * k):          # dedicated stream: adaptation ends on the last iteration
            yield self.gen_nuts(r, edge=True)
        for _ in range(70 * k):          # histories of calls in one process
            yield self.gen_history(r)
        yield dict(alg='moments', seed=12345)

    # -- implementation drivers --------------------------------------------------------------------
    def run_impl(self, case):
        if case['alg'] == 'metropolis':
            return self.run_met(case)
        if case['alg'] == 'nuts':
            return self.run_nuts(case)
        if case['alg'] == 'history':
            return self.run_history(case)
        return self.run_moments(case)

    def _params0(self, case):
        layout = case.get('x0_layout') or ('row2d' if case.get('shape2d') else 'plain')
        return build_start(case['x0'], case.get('x0_kind', 'f64'), layout)

    def run_met(self, case):
        from elfi.methods import mcmc
        f, _ = make_target(case['target'])
        wrapnp = case['ret'] == 'np'
        kind = case.get('x0_kind', 'f64')
        params0 = self._params0(case)                 # ONE object for all runs of this case: the sampler must not change it
        sigma = build_sigma(case['sigma'], case.get('sigma_kind', 'f64'), np.shape(params0))
        snap0 = (snapshot(params0), snapshot(sigma))
        dtypes = []

        def call(rec):
            def rtarget(x):
                v = f(x)
                if rec is not None:
                    rec.ev.append(('target', np.array(x, dtype=float, copy=True).ravel(), float(v)))
                return np.float64(v) if wrapnp else v
            return self._met_invoke(mcmc, case, params0, sigma, rtarget, dtypes)

        rec = Rec()
        factory = (lambda seed: RecRS(seed, rec)) if case['rs'] == 'seed' else (lambda seed: ScriptRS(seed, rec))
        old = mcmc.np
        mcmc.np = NpProxy(rec, factory)
        try:
            res = call(rec)
        finally:
            mcmc.np = old
        out = self._met_out(res, rec, params0, dtypes[0] if dtypes else None)
        if case['rs'] == 'seed' and out['res'] != 'rejected':
            plain = call(None)
            again = call(None)
            same = (isinstance(plain, str) and plain == res) or (not isinstance(plain, str) and not isinstance(res, str)
                                                               and plain.tobytes() == res.tobytes())
            det = (isinstance(plain, str) and plain == again) or (not isinstance(plain, str) and not isinstance(again, str)
                                                                 and plain.tobytes() == again.tobytes())
            out['plain_same'] = bool(same)
            out['deterministic'] = bool(det)
            # the stream an independent RandomState(seed) yields for the same calls
            out['stream_independent'] = self._stream_independent(case, out, np.shape(params0))
        out['inputs_untouched'] = bool((snapshot(params0), snapshot(sigma)) == snap0)
        return out

    @staticmethod
    def _met_invoke(mod, case, params0, sigma, target, dtypes):
        """one metropolis() call through module `mod`: the returned array as float64, or an outcome string"""
        try:
            res = mod.metropolis(case['n'], params0, target, sigma, warmup=case['warmup'], seed=case['seed'])
            dtypes.append(str(getattr(res, 'dtype', type(res).__name__)))
            return np.array(res, dtype=float)
        except ValueError as e:
            if 'Bad initialization' in str(e):
                return 'badinit'
            raise
        except (AttributeError, IndexError, TypeError):
            if case.get('x0_kind', 'f64') in OUT_OF_DOMAIN:
                return 'rejected'      # the entry point does not take this container
            raise

    @staticmethod
    def _nuts_invoke(mod, case, params0, target, grad, dtypes):
        """one nuts() call through module `mod`: the returned array as float64, or an outcome string"""
        kw = dict(n_adapt=case['n_adapt'], target_prob=case['target_prob'], max_depth=case['max_depth'], seed=case['seed'],
                  stepsize=case['stepsize'])
        try:
            res = mod.nuts(case['n_iter'], params0, target, grad, **kw)
            dtypes.append(str(getattr(res, 'dtype', type(res).__name__)))
            return np.array(res, dtype=float)
        except (AttributeError, IndexError, TypeError) as e:
            if case.get('x0_kind', 'f64') in OUT_OF_DOMAIN:
                return 'rejected'      # the entry point does not take this container
            return 'crash: %s: %s' % (type(e).__name__, e)
        except ValueError as e:
            if 'Bad initialization' in str(e):
                return 'badinit'
            if 'Cannot find acceptable stepsize' in str(e):
                return 'initfail'
            return 'crash: %s: %s' % (type(e).__name__, e)
        except SystemExit as e:
            return 'initfail'
        except Exception as e:
            return 'crash: %s: %s' % (type(e).__name__, e)

    @staticmethod
    def _stream_independent(case, out, shp):
        """the recorded draws are those an independent RandomState(seed) yields for the same calls"""
        rs = np.random.RandomState(case['seed'])
        ind = []
        for _ in range(len(out['stream']) // 2):
            ind.append(['n', [fh(x) for x in rs.randn(*shp).ravel()]])
            ind.append(['u', fh(rs.rand())])
        return ind == out['stream']

    # -- histories of calls in one process (wave 3) ----------------------------------------------------
    def _one_call(self, mod, c, box, params0):
        """one recorded call of a history through module `mod` on the callables of `box`, with a recorder of its own"""
        rec = Rec()
        dtypes = []
        snap = [snapshot(params0)]
        t, g = box.callables()
        box.rec = rec
        try:
            if c['alg'] == 'nuts':
                res, top = self._nuts_patched(mod, rec, lambda: self._nuts_invoke(mod, c, params0, t, g, dtypes))
            else:
                sigma = build_sigma(c['sigma'], c.get('sigma_kind', 'f64'), np.shape(params0))
                snap.append(snapshot(sigma))
                old = mod.np
                mod.np = NpProxy(rec, lambda seed: RecRS(seed, rec))
                try:
                    res, top = self._met_invoke(mod, c, params0, sigma, t, dtypes), None
                finally:
                    mod.np = old
                snap.append(snapshot(sigma))
        finally:
            box.rec = None
        untouched = (snapshot(params0) == snap[0]) and (len(snap) < 3 or snap[1] == snap[2])
        return dict(res=res, rec=rec, top=top, dtype=(dtypes[0] if dtypes else None), params0=params0, untouched=bool(untouched))

    def _call_out(self, c, raw, f, interns):
        """the single-call record of one raw call of a history"""
        if c['alg'] == 'nuts':
            out = dict(alg='nuts', inputs_untouched=raw['untouched'], plain_same=True, deterministic=True)
            return self._nuts_canon(c, out, raw['res'], raw['rec'], raw['top'], np.array(c['x0'], dtype=float), f, raw['params0'],
                                    raw['dtype'], interns)
        out = self._met_out(raw['res'], raw['rec'], raw['params0'], raw['dtype'])
        out.update(inputs_untouched=raw['untouched'], plain_same=True, deterministic=True)
        out['stream_independent'] = bool(self._stream_independent(c, out, np.shape(raw['params0'])))
        return out

    def run_history(self, case):
        from elfi.methods import mcmc
        calls = case['calls']
        boxes = [TargetBox(spec, style, wrap) for spec, style, wrap in zip(case['targets'], case['styles'], case['wrapnp'])]
        shared = {}
        here = []
        for c in calls:                                   # the history, in order, through the live module
            if c['share_start']:
                if c['sslot'] not in shared:
                    shared[c['sslot']] = build_start(c['x0'], c['x0_kind'], c['x0_layout'])
                params0 = shared[c['sslot']]              # the SAME start object for every call that shares the slot
            else:
                params0 = build_start(c['x0'], c['x0_kind'], c['x0_layout'])
            here.append(self._one_call(mcmc, c, boxes[c['tslot']], params0))
        recs = []
        for k, c in enumerate(calls):                     # every call once more, as the only call ever made
            box = TargetBox(case['targets'][c['tslot']], case['styles'][c['tslot']], case['wrapnp'][c['tslot']])
            fresh = self._one_call(fresh_module(), c, box, build_start(c['x0'], c['x0_kind'], c['x0_layout']))
            sh, sf = raw_signature(here[k]['res'], here[k]['rec']), raw_signature(fresh['res'], fresh['rec'])
            diff = [key for key in ('stream', 'grad', 'target', 'exp', 'res') if sh[key] != sf[key]]
            interns = (Intern(), Intern(), Intern(), Intern(), Intern())
            out_f = self._call_out(c, fresh, box.f, interns)
            out_h = self._call_out(c, here[k], box.f, interns)
            recs.append(dict(fresh=out_f, here=out_h, diff=diff, n_draws=[len(sh['stream']), len(sf['stream'])],
                             n_grad=[len(sh['grad']), len(sf['grad'])], sig=hashlib.sha1(json.dumps(sh, sort_keys=True).encode()).hexdigest()))
        # calls with identical arguments (same target callable, same numbers in the same storage, same settings and seed)
        keyof = lambda c: json.dumps({k: v for k, v in c.items() if k not in ('share_start',)}, sort_keys=True)
        ident = []
        for i in range(len(calls)):
            for j in range(i + 1, len(calls)):
                if keyof(calls[i]) == keyof(calls[j]):
                    ident.append([i, j, recs[i]['sig'] == recs[j]['sig']])
        return dict(alg='history', calls=recs, identical=ident)

    @staticmethod
    def _met_out(res, rec, params0, dtype):
        """the record of one metropolis call (res: the returned array as float64, or an outcome string)"""
        out = dict(alg='metropolis')
        out['events'] = ''.join({'randn': 'N', 'rand': 'U', 'exp': 'E', 'target': 'T'}.get(e[0], '?') for e in rec.ev)
        out['stream'] = [['n', [fh(x) for x in e[1]]] if e[0] == 'randn' else ['u', fh(e[1])]
                         for e in rec.ev if e[0] in ('randn', 'rand', 'exponential')]
        out['target'] = [[[fh(x) for x in e[1]], fh(e[2])] for e in rec.ev if e[0] == 'target']
        out['exp'] = [[fh(e[1]), fh(e[2])] for e in rec.ev if e[0] == 'exp']
        if isinstance(res, str):
            out['res'] = res
            out['chain'] = None
        else:
            out['res'] = 'chain'
            out['shape'] = list(res.shape)
            out['start_shape'] = list(np.shape(params0))
            out['out_dtype'] = dtype
            out['chain'] = [[fh(x) for x in np.asarray(row).ravel()] for row in res]
        return out

    def run_nuts(self, case):
        from elfi.methods import mcmc
        f, g = make_target(case['target'])
        kind = case.get('x0_kind', 'f64')
        params0 = build_start(case['x0'], kind, case.get('x0_layout', 'plain'))   # ONE object for all runs of this case
        snap0 = snapshot(params0)
        x0 = np.array(case['x0'], dtype=float)       # the binary64 values of the start: what the chain must start from
        dtypes = []

        def call(rec):
            def rtarget(x):
                v = f(x)
                if rec is not None:
                    rec.ev.append(('target', np.array(x, dtype=float, copy=True).ravel(), float(v)))
                return v
            return self._nuts_invoke(mcmc, case, params0, rtarget, g, dtypes)

        rec = Rec()
        res, top = self._nuts_patched(mcmc, rec, lambda: call(rec))
        out = dict(alg='nuts')
        out['inputs_untouched'] = bool(snapshot(params0) == snap0)
        if isinstance(res, str):
            return self._nuts_canon(case, out, res, rec, top, x0, f, params0, None)
        plain = call(None)
        again = call(None)
        out['inputs_untouched'] = bool(snapshot(params0) == snap0)
        out['plain_same'] = bool(not isinstance(plain, str) and plain.tobytes() == res.tobytes())
        out['deterministic'] = bool(not isinstance(plain, str) and not isinstance(again, str) and plain.tobytes() == again.tobytes())
        return self._nuts_canon(case, out, res, rec, top, x0, f, params0, dtypes[0])

    @staticmethod
    def _nuts_patched(mod, rec, thunk):
        """run thunk() with the name `np` and `_build_tree_nuts` of module `mod` replaced by the recording versions;
        returns (thunk's value, the logged top-level tree calls)"""
        top, stack = [], []
        orig = mod._build_tree_nuts

        def wrapper(params, momentum, log_slicevar, step, depth, *rest):
            node = dict(depth=int(depth), params=np.array(params, dtype=float, copy=True), momentum=np.array(momentum, dtype=float, copy=True),
                        sv=float(log_slicevar), step=float(step), children=[], ev0=len(rec.ev))
            (stack[-1]['children'] if stack else top).append(node)
            stack.append(node)
            try:
                o = orig(params, momentum, log_slicevar, step, depth, *rest)
            finally:
                stack.pop()
            node['out'] = tuple(np.array(x, dtype=float, copy=True) if isinstance(x, np.ndarray) else x for x in o)
            node['ev1'] = len(rec.ev)
            return o

        old = mod.np
        mod.np = NpProxy(rec, lambda seed: RecRS(seed, rec))
        mod._build_tree_nuts = wrapper
        try:
            res = thunk()
        finally:
            mod.np = old
            mod._build_tree_nuts = orig
        return res, top

    @staticmethod
    def _nuts_canon(case, out, res, rec, top, x0, f, params0, dtype, interns=None):
        """the record of one nuts call from its raw log; `interns` = the five interning tables (shared between the two
        records of one call of a history, so that equal bytes get equal ids in both)"""
        if isinstance(res, str):
            out['res'] = res if not res.startswith('crash') else 'crash'
            out['msg'] = res
            t0 = [e for e in rec.ev if e[0] == 'target']
            out['tinf'] = bool(t0 and math.isinf(t0[0][2]))
            return out
        out['res'] = 'chain'
        out['shape'] = list(res.shape)
        out['start_shape'] = list(np.shape(params0))
        out['out_dtype'] = dtype
        out['direct_good'] = [bool(good_value(f(row))) for row in res]
        out['start_good'] = bool(good_value(f(x0)))

        # ---- canonicalise: intern arrays and floats
        P, M, SZ, SV, E = interns if interns is not None else (Intern(), Intern(), Intern(), Intern(), Intern())
        tvals = {}
        for e in rec.ev:
            if e[0] == 'target':
                tvals.setdefault(abytes(e[1]), e[2])
        rs_ev = [(i, e) for i, e in enumerate(rec.ev) if e[0] in ('randn', 'rand', 'exponential')]
        stream = []
        for i, e in rs_ev:
            if e[0] == 'randn':
                stream.append(['m', M(abytes(e[1]))])
            elif e[0] == 'exponential':
                stream.append(['e', E(fbytes(e[1]))])
            else:
                stream.append(['u', fh(e[1])])

        def conv(o):
            n, steps = float(o[5]), float(o[8])
            if n != int(n) or steps != int(steps) or n < 0 or steps < 0:
                raise ValueError('non-integral subtree counts %r %r' % (n, steps))
            return [P(abytes(o[0])), M(abytes(o[1])), P(abytes(o[2])), M(abytes(o[3])), P(abytes(o[4])), int(n), bool(o[6]),
                    fh(o[7]), int(steps), bool(o[9]), bool(o[10])]

        def crit(o):
            pl, ml, pr, mr = o[0], o[1], o[2], o[3]
            return bool((np.inner(pr - pl, ml) >= 0) and (np.inner(pr - pl, mr) >= 0))

        base, leaves, nodes, uturn = [], [], [], {}
        allnodes = []

        def walk(nd):
            for c in nd['children']:
                walk(c)
            allnodes.append(nd)
        for nd in top:
            walk(nd)
        for nd in allnodes:
            o = nd['out']
            if nd['depth'] == 0:
                t = conv(o)
                leaves.append(t)
                key = [SZ(fbytes(abs(nd['step']))), nd['step'] < 0, SV(fbytes(nd['sv'])), P(abytes(nd['params'])), M(abytes(nd['momentum']))]
                base.append([key, [t[4], t[1], t[5] == 1, t[6], t[10], t[7]]])
            else:
                ch = nd['children']
                us = [e[1] for e in rec.ev[ch[-1]['ev1']:nd['ev1']] if e[0] == 'rand'] if len(ch) == 2 else []
                t = conv(o)
                nodes.append(dict(neg=nd['step'] < 0, t1=conv(ch[0]['out']), t2=(conv(ch[1]['out']) if len(ch) > 1 else None),
                                  u=(fh(us[0]) if us else None), res=t, nchildren=len(ch), nu=len(us)))
                if len(ch) == 2:
                    uturn[tuple(t[0:4])] = crit(o)
        # ---- per-iteration data
        exp_pos = [i for i, e in rs_ev if e[0] == 'exponential']
        n_iter = case['n_iter']
        eps, slices, svok = [], [], {}
        chain_ids = [P(abytes(row)) for row in res]
        bounds = exp_pos + [len(rec.ev) + 1]
        for k in range(len(exp_pos)):
            # top-level calls of iteration k+1 start after its exponential draw and before the next one's momentum draw
            calls = [nd for nd in top if nd['ev0'] > bounds[k] and (k + 1 >= len(exp_pos) or nd['ev0'] < bounds[k + 1])]
            m0 = [e for i, e in rs_ev if i < exp_pos[k] and e[0] == 'randn'][-1][1]
            ev_e = rec.ev[exp_pos[k]][1]
            prev = x0 if k == 0 else res[k - 1]
            if calls:
                eps.append(SZ(fbytes(abs(calls[0]['step']))))
                sv = calls[0]['sv']
                slices.append([[P(abytes(prev)), M(abytes(m0)), E(fbytes(ev_e))], SV(fbytes(sv))])
                svok[SV(fbytes(sv))] = good_value(sv)
            else:
                eps.append(0)
            pl, ml, pr, mr = prev, m0, prev, m0
            for nd in calls:
                o = nd['out']
                if nd['step'] < 0:
                    pl, ml = o[0], o[1]
                else:
                    pr, mr = o[2], o[3]
                uturn[(P(abytes(pl)), M(abytes(ml)), P(abytes(pr)), M(abytes(mr)))] = crit((pl, ml, pr, mr))
        n_randn = len([1 for _, e in rs_ev if e[0] == 'randn'])
        out.update(stream=stream, base=base, leaves=leaves, nodes=nodes, uturn=[[list(k), v] for k, v in uturn.items()],
                   slice=slices, eps=eps, svok=[[k, v] for k, v in svok.items()],
                   good=[[i, bool(good_value(tvals[b]))] for b, i in P.d.items() if b in tvals],
                   p0=P(abytes(x0)), tinf=bool(math.isinf(tvals.get(abytes(x0), 0.0))), ninit=n_randn - len(exp_pos),
                   chain=chain_ids, n_internal2=len([1 for n in nodes if n['nchildren'] == 2]),
                   moved=len(set(chain_ids + [P(abytes(x0))])) > 1)
        return out

    def run_moments(self, case):
        from elfi.methods import mcmc
        f = lambda x: float(-0.5 * np.sum(np.asarray(x) ** 2))
        g = lambda x: -np.asarray(x)
        m = mcmc.metropolis(6000, np.array([0.5, -0.5]), f, np.array([1.5, 1.5]), warmup=500, seed=case['seed'])
        n = mcmc.nuts(1200, np.array([0.5, -0.5]), f, g, seed=case['seed'])[600:]
        return dict(alg='moments', met_mean=[float(x) for x in m.mean(axis=0)], met_var=[float(x) for x in m.var(axis=0)],
                    nuts_mean=[float(x) for x in n.mean(axis=0)], nuts_var=[float(x) for x in n.var(axis=0)])

    # -- python-side clauses -----------------------------------------------------------------------
    def py_check(self, case, out):
        if out['alg'] != 'history':
            return self._py_single(case, out)
        bad = []
        for k, (c, r) in enumerate(zip(case['calls'], out['calls'])):
            for clause, msg in self._py_single(c, r['here']):
                bad.append((clause, 'a call of a history: %s' % msg))
            if r['diff']:
                what = r['diff'][0]
                msg = {'stream': 'did not draw from its generator what the call alone draws (another number of draws, or other numbers)',
                       'grad': 'evaluated the gradient another number of times / at other points than the call alone',
                       'target': 'evaluated the log-target at other points / another number of times than the call alone',
                       'exp': 'called np.exp on other values than the call alone',
                       'res': 'returned a different result than the call alone'}[what]
                # (which call, its seed and the draw counts are in impl_output: calls[k].diff / n_draws / n_grad)
                bad.append(('history_fresh', 'a %s call of a history%s %s: the chain depends on the calls made before it in the '
                            'process, not only on its arguments and seed [differs in: %s]'
                            % (c['alg'], (' (step size %s)' % ('searched' if c['stepsize'] is None else 'given')) if c['alg'] == 'nuts' else '',
                               msg, ', '.join(r['diff']))))
        if not all(same for _, _, same in out['identical']):
            bad.append(('identical_calls', 'two calls of a history with identical arguments and seed are not bit-identical '
                                           '(result / draws / evaluations)'))
        # one message per clause and history (the replay holds the details)
        seen, uniq = set(), []
        for b in bad:
            if b not in seen:
                seen.add(b)
                uniq.append(b)
        return uniq

    def _py_single(self, case, out):
        bad = []
        if out['alg'] == 'moments':
            # statistical clause, support only: wide tolerance, fixed seed
            for k in ('met', 'nuts'):
                if max(abs(x) for x in out[k + '_mean']) > 0.35 or not all(0.55 < v < 1.6 for v in out[k + '_var']):
                    bad.append(('moments', '%s on N(0,I): moments outside the wide tolerance' % k))
            return bad
        if out['alg'] == 'metropolis':
            if out['res'] == 'rejected':
                return bad
            if not out['inputs_untouched']:
                bad.append(('inputs_untouched', 'metropolis changed the caller\'s start / sigma object (a second run with the same '
                                                'object and seed is then not the chain of the seed)'))
            if out['res'] == 'chain':
                if out['shape'][0] != case['n']:
                    bad.append(('n_states', 'metropolis returned a chain whose length is not n_samples'))
                if out['shape'][1:] != out['start_shape']:
                    bad.append(('state_shape', 'the returned states do not have the shape of the starting point'))
                k = case['n'] + case['warmup']
                if out['events'] != 'T' + 'NTEU' * k:
                    bad.append(('call_order', 'calls on target/randn/exp/rand are not T(NTEU)^(n_samples+warmup)'))
            if case['rs'] == 'seed':
                if not out['deterministic']:
                    bad.append(('deterministic', 'two metropolis runs with the same seed differ'))
                if not out['plain_same']:
                    bad.append(('proxy_transparent', 'recorded run differs from the unpatched run'))
                if not out['stream_independent']:
                    bad.append(('stream', 'recorded draws are not those of RandomState(seed).randn(*shape), rand(), ...'))
            return bad
        # nuts
        if out['res'] == 'crash':
            bad.append(('returns_n_states', 'nuts raised instead of returning: ' + out['msg'].split(':')[1].strip()))
            return bad
        if out['res'] == 'rejected':
            return bad
        if not out['inputs_untouched']:
            bad.append(('inputs_untouched', 'nuts changed the caller\'s start object'))
        if out['res'] == 'chain':
            if out['shape'][0] != case['n_iter']:
                bad.append(('n_states', 'nuts returned a chain whose length is not n_iter'))
            if out['shape'][1:] != out['start_shape']:
                bad.append(('state_shape', 'the returned states do not have the shape of the starting point'))
            if out['out_dtype'] != 'float64':
                bad.append(('float64_states', 'nuts returned %s states for a %s start: the leapfrog states are double precision'
                            % (out['out_dtype'], case.get('x0_kind', 'f64'))))
            if not out['deterministic']:
                bad.append(('deterministic', 'two nuts runs with the same seed differ'))
            if not out['plain_same']:
                bad.append(('proxy_transparent', 'recorded nuts run differs from the unpatched run'))
            if out['start_good'] and all(v for _, v in out['svok']) and not all(out['direct_good']):
                bad.append(('support', 'nuts emitted a state whose log-target is -inf or nan'))
        return bad

    def classify(self, case, out, clause):
        if case.get('alg') == 'nuts' and isinstance(out, dict) and out.get('res') == 'crash' and 'ZeroDivisionError' in out.get('msg', '') \
                and case['n_iter'] == (case['n_adapt'] if case['n_adapt'] is not None else case['n_iter'] // 2) + 1:
            return 'nuts-zerodiv-last-adapt'
        return None

    def nontrivial(self, case, out):
        if out['alg'] == 'metropolis':
            if out['res'] != 'chain':
                return None
            # accepted and rejected proposals both occur (seen in the target log: a proposal equal to the next state)
            ch = out['chain']
            moves = sum(1 for a, b in zip(ch, ch[1:]) if a != b)
            stays = sum(1 for a, b in zip(ch, ch[1:]) if a == b)
            if not (moves and stays):
                return None
        elif out['alg'] == 'nuts':
            if out['res'] != 'chain' or not out['n_internal2'] or not out['moved']:
                return None
        elif out['alg'] == 'history':
            # at least two calls on one target callable returned a chain
            n = {}
            for c, r in zip(case['calls'], out['calls']):
                if r['here']['res'] == 'chain':
                    n[c['tslot']] = n.get(c['tslot'], 0) + 1
            if max([0] + list(n.values())) < 2:
                return None
        else:
            return None
        return json.dumps(case, sort_keys=True)

    # -- Coq terms ---------------------------------------------------------------------------------
    def to_coq(self, case, out):
        if out['alg'] == 'history':
            hs = []
            for c, r in zip(case['calls'], out['calls']):
                tf, th = self._coq_single(c, r['fresh']), self._coq_single(c, r['here'])
                if (tf is None) != (th is None):
                    raise ValueError('a call of the history has a Coq record alone but not in the history (or vice versa): %s / %s'
                                     % (r['fresh']['res'], r['here']['res']))
                if tf is not None and tf == th:
                    # the two records print to the same term: written once (halves the case file; same value)
                    hs.append('(let c := %s in {| hc_fresh := c; hc_here := c |})' % tf)
                elif tf is not None:
                    hs.append('{| hc_fresh := %s; hc_here := %s |}' % (tf, th))
            return 'History %s' % clist(hs) if hs else None
        t = self._coq_single(case, out)
        return None if t is None else 'Single (%s)' % t

    def _coq_single(self, case, out):
        if out['alg'] == 'metropolis':
            if out['res'] == 'rejected':
                return None
            d = case['d']
            sigma = case['sigma'] if isinstance(case['sigma'], list) else [case['sigma']] * d
            stream = clist(['DN %s' % cvec(e[1]) if e[0] == 'n' else 'DU %s' % cfh(e[1]) for e in out['stream']])
            impl = 'IBadInit' if out['res'] == 'badinit' else 'IChain %s' % clist([cvec(r) for r in out['chain']])
            # start and scales in the caller's storage: integers as NI, binary16/32/64 values as NF (exact embedding)
            return ('CMet {| c_n := %s; c_warmup := %s; c_start := %s; c_sigma_in := %s; c_stream := %s; c_target := %s; c_exp := %s; '
                    'c_out_f64 := %s; c_impl := %s |}'
                    % (cnat(case['n']), cnat(case['warmup']), clist([cnum(x) for x in case['x0']]), clist([cnum(x) for x in sigma]),
                       stream, clist(['(%s, %s)' % (cvec(k), cfh(v)) for k, v in out['target']]),
                       clist(['(%s, %s)' % (cfh(k), cfh(v)) for k, v in out['exp']]),
                       cbool(out['res'] != 'chain' or out['out_dtype'] == 'float64'), impl))
        if out['alg'] != 'nuts' or out['res'] in ('initfail', 'crash', 'rejected'):
            return None
        if out['res'] == 'badinit':
            return ('CNuts {| nc_iter := %s; nc_maxdepth := %s; nc_ninit := 0; nc_p0 := 1%%N; nc_tinf := %s; nc_stream := []; nc_base := []; '
                    'nc_uturn := []; nc_slice := []; nc_eps := []; nc_good := []; nc_svok := []; nc_leaves := []; nc_nodes := []; nc_impl := NIBadInit |}'
                    % (cnat(case['n_iter']), cnat(case['max_depth']), cbool(out['tinf'])))

        def ctree(t):
            return ('{| t_pl := %s; t_ml := %s; t_pr := %s; t_mr := %s; t_p1 := %s; t_n := %s; t_ok := %s; t_mh := %s; t_steps := %s; t_div := %s; t_out := %s |}'
                    % (cN(t[0]), cN(t[1]), cN(t[2]), cN(t[3]), cN(t[4]), cnat(t[5]), cbool(t[6]), cfh(t[7]), cnat(t[8]), cbool(t[9]), cbool(t[10])))

        def cleaf(l):
            return ('{| l_p := %s; l_m := %s; l_in := %s; l_ok := %s; l_out := %s; l_mh := %s |}'
                    % (cN(l[0]), cN(l[1]), cbool(l[2]), cbool(l[3]), cbool(l[4]), cfh(l[5])))

        def cnode(n):
            return ('{| nd_neg := %s; nd_t1 := %s; nd_t2 := %s; nd_u := %s; nd_res := %s |}'
                    % (cbool(n['neg']), ctree(n['t1']), copt(n['t2'], ctree), copt(n['u'], cfh), ctree(n['res'])))

        stream = clist(['NM %s' % cN(e[1]) if e[0] == 'm' else 'NE %s' % cN(e[1]) if e[0] == 'e' else 'NU %s' % cfh(e[1]) for e in out['stream']])
        base = clist(['((%s, %s, %s, %s, %s), %s)' % (cN(k[0]), cbool(k[1]), cN(k[2]), cN(k[3]), cN(k[4]), cleaf(l)) for k, l in out['base']])
        uturn = clist(['((%s, %s, %s, %s), %s)' % (cN(k[0]), cN(k[1]), cN(k[2]), cN(k[3]), cbool(v)) for k, v in out['uturn']])
        slc = clist(['((%s, %s, %s), %s)' % (cN(k[0]), cN(k[1]), cN(k[2]), cN(v)) for k, v in out['slice']])
        return ('CNuts {| nc_iter := %s; nc_maxdepth := %s; nc_ninit := %s; nc_p0 := %s; nc_tinf := %s; nc_stream := %s; nc_base := %s; '
                'nc_uturn := %s; nc_slice := %s; nc_eps := %s; nc_good := %s; nc_svok := %s; nc_leaves := %s; nc_nodes := %s; nc_impl := NIChain %s |}'
                % (cnat(case['n_iter']), cnat(case['max_depth']), cnat(out['ninit']), cN(out['p0']), cbool(out['tinf']), stream, base, uturn, slc,
                   clist([cN(x) for x in out['eps']]), clist(['(%s, %s)' % (cN(k), cbool(v)) for k, v in out['good']]),
                   clist(['(%s, %s)' % (cN(k), cbool(v)) for k, v in out['svok']]),
                   clist([ctree(t) for t in out['leaves']]), clist([cnode(n) for n in out['nodes']]),
                   clist([cN(x) for x in out['chain']])))


if __name__ == '__main__':
    sys.exit(run_check(C09))
