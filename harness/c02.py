"""C02 — seeded runs are pure functions of (model, seed, configuration)."""
import numpy as np
from common import *
from graphgen import *


# ---- numeric, picklable operations (module level) for bit-identity runs under both clients ----
def num_sim(*params, batch_size=1, random_state=None):
    x = random_state.normal(size=batch_size)
    for p in params:
        x = x + np.asarray(p, dtype=float)
    return x


def num_sum(*parents):
    x = 0.0
    for p in parents:
        x = x + np.asarray(p, dtype=float) ** 2
    return np.sqrt(x)


def num_op(*parents):
    x = 1.0
    for p in parents:
        x = x + np.sin(np.asarray(p, dtype=float))
    return x


def num_disc(*parents, observed=None):
    d = 0.0
    for p, o in zip(parents, observed):
        d = d + np.abs(np.asarray(p, dtype=float) - np.asarray(o, dtype=float))
    return np.asarray(d).reshape(-1) if np.ndim(d) else d


def num_sim2(*params, batch_size=1, random_state=None):
    x = 2.0 * random_state.normal(size=batch_size) + 0.25
    for p in params:
        x = x - np.asarray(p, dtype=float)
    return x


def num_sim3(*params, batch_size=1, random_state=None):
    x = random_state.uniform(size=batch_size) * random_state.normal(size=batch_size)
    for p in params:
        x = x + 0.5 * np.asarray(p, dtype=float)
    return x


def num_sum2(*parents):
    x = 0.5
    for p in parents:
        x = x + np.abs(np.asarray(p, dtype=float))
    return x


def num_sum3(*parents):
    x = 0.0
    for p in parents:
        x = x + np.cos(np.asarray(p, dtype=float))
    return x * 3.0


def num_op2(*parents):
    x = 2.0
    for p in parents:
        x = x * (1.0 + np.tanh(np.asarray(p, dtype=float)))
    return x


def num_op3(*parents):
    x = -1.0
    for p in parents:
        x = x + np.asarray(p, dtype=float) / 3.0
    return x


def num_disc2(*parents, observed=None):
    d = 0.0
    for p, o in zip(parents, observed):
        d = d + (np.asarray(p, dtype=float) - np.asarray(o, dtype=float)) ** 2
    return np.asarray(d).reshape(-1) if np.ndim(d) else d


NUM_FUNCS = dict(Simulator=(num_sim, num_sim2, num_sim3), Summary=(num_sum, num_sum2, num_sum3),
                 Operation=(num_op, num_op2, num_op3), Discrepancy=(num_disc, num_disc2, num_disc))
NUM_FAMILIES = ('normal', 'uniform', 'expon', 'laplace', 'logistic')


# ---- histories on one model object: run-time resolution of abstract steps against the CURRENT graph ----
def node_class(m, n):
    c = m.source_net.nodes[n]['attr_dict'].get('_class')
    return getattr(c, '__name__', '')


def pick(xs, p):
    return xs[min(int(p * len(xs)), len(xs) - 1)] if xs else None


def non_descendants(m, n):
    import networkx as nx
    bad = nx.descendants(m.source_net, n) | {n}
    return [x for x in sorted(m.source_net.nodes()) if x not in bad]


def pick_parents(cands, ppicks):
    out = []
    for p in ppicks:
        x = pick(cands, p)
        if x is not None and x not in out:
            out.append(x)
    return out


def rebuild(m, rnd):
    """A freshly built model object with the nodes (same states), edges and observed data of m's CURRENT graph,
    inserted through the public GraphicalModel API in a shuffled order; nothing was ever computed on it."""
    import elfi
    g = m.source_net
    f = elfi.ElfiModel(name=m.name)
    nodes = [(n, d['attr_dict']) for n, d in g.nodes(data=True)]
    rnd.shuffle(nodes)
    for n, st in nodes:
        f.add_node(n, dict(st))
    edges = [(u, v, d['param']) for u, v, d in g.edges(data=True)]
    rnd.shuffle(edges)
    for u, v, par in edges:
        f.add_edge(u, v, par)
    obs = list(m.observed.items())
    rnd.shuffle(obs)
    f.observed = dict(obs)
    return f


def resolve_outputs(m, st, resolved):
    """outputs of a generate step: a selection is resolved against the graph at its first use and keeps its names
    afterwards (restricted to the nodes that still exist), so that the same outputs are requested again after edits"""
    sel = st['sel']
    if sel is None:
        return None
    key = json.dumps(sel)
    if key not in resolved:
        names = sorted(m.source_net.nodes())
        resolved[key] = pick_parents(names, sel)
    outs = [n for n in resolved[key] if m.has_node(n)]
    return outs or None


def build_numeric(spec, order=None):
    import elfi
    m = elfi.ElfiModel(name='num')
    refs = {}
    todo = list(spec) if order is None else [next(s for s in spec if s['name'] == n) for n in order]
    for nd in todo:
        ps = [refs[p] for p, _ in sorted(nd['parents'], key=lambda x: x[1])]
        nm, k = nd['name'], nd['kind']
        if k == 'const':
            r = elfi.Constant(float(nd['value']) / 100.0, name=nm, model=m)
        elif k == 'op':
            r = elfi.Operation(num_op, *ps, name=nm, model=m)
        elif k == 'prior':
            r = elfi.Prior('normal', *(ps[:1]), name=nm, model=m)
        elif k == 'sim':
            r = elfi.Simulator(num_sim, *ps, name=nm, model=m,
                               observed=None if nd['observed'] is None else np.array([nd['observed'] / 1000.0]))
        elif k == 'summary':
            r = elfi.Summary(num_sum, *ps, name=nm, model=m,
                             observed=None if nd['observed'] is None else np.array([nd['observed'] / 1000.0]))
        elif k == 'disc':
            r = elfi.Discrepancy(num_disc, *ps, name=nm, model=m)
        refs[nm] = r
    return m


def blob(res):
    return {k: (np.asarray(v).dtype.str, np.asarray(v).shape, np.asarray(v).tobytes().hex()) for k, v in sorted(res.items())}


_MP = {}


def mp_client():
    import elfi.clients.multiprocessing as mp
    if 'c' not in _MP:
        _MP['c'] = mp.Client(num_processes=2)
    return _MP['c']


class C02(PropCheck):
    pid = 'C02'
    header = ('From Coq Require Import List String ZArith Bool.\n'
              'From Elfi Require Import Base.Harness Graph.Net Graph.Denote Graph.Determinism.\nImport ListNotations.\n')
    case_type = 'Determinism.case'
    preds = (('Determinism.agree', 'agree'), ('Determinism.ok', 'ok'))
    chunk = 40
    build_targets = ('Graph/Determinism.vo',)
    rule = ('random named DAGs built twice in different valid insertion orders (recording operations; call order = order of draws '
            'from the batch generator), run with one seed, the second run after reseeding/consuming np.random and unrelated '
            'generate calls; plus numeric twins of the same graphs compared bit for bit (tobytes) between repeated runs, insertion '
            'orders, native vs multiprocessing client, BatchHandler histories sharing one context vs fresh contexts, and repeated '
            'seeded Rejection runs; boundary seeds 0, 1, 2^31-1, 2^32-1 in 30% of the cases; every third case a seeded Rejection and a 3-population SMC run on '
            'the native client vs a scripted client keeping 2-5 batches in flight (scripted is_ready answers, lazy/eager/shuffled execution); '
            'HISTORIES ON ONE MODEL OBJECT (every case, on the recording model and on its numeric twin, after the runs above): 5-11 steps mixing '
            'generate calls (1-3 output selections that recur, 1-2 seeds, 3 batch sizes, np.random / unrelated generate calls in between) with '
            'edits through the public API resolved against the current graph - become onto a new node of the same kind with the same parents '
            '(node and edge counts unchanged: other prior family / simulator / summary / operation / constant value) or with other parents or another kind, '
            'observed data changes, uses_meta on/off, added nodes, removed nodes, keyword edges, parameter_names; every generate call is compared with the same call on a '
            'freshly built model object holding the current graph (nodes, edges, observed data inserted in shuffled order through add_node/add_edge): '
            'Coq step_agree / step_ok for values and call order, python-side for the draws and bit for bit on the numeric twin; '
            'non-trivial = at least two stochastic operations ran; distinct by (spec, order2, outputs, seed)')
    trusted = ('numpy RandomState(seed) is a pure function of the seed; multiprocessing transport (pickle) is the identity on nets (sampled with 2 workers)',)

    def generate(self):
        n = 70 if self.tier == 'quick' else 1200
        r = self.rng
        for i in range(n):
            spec = gen_spec(r, n_nodes=r.randint(3, 9), named_edges=False, allow_meta=(i % 3 == 0))
            # no unobserved sim feeding discrepancies issues matter here: symbolic ops accept anything
            names = [s['name'] for s in spec]
            order2 = valid_orders(spec, r, 1)[0]
            outputs = r.choice([None, r.sample(names, r.randint(1, len(names)))])
            self.bump('n_nodes=%d' % len(spec))
            self.bump('reordered=%s' % (order2 != names))
            seed = r.choice([0, 0, 1, 2 ** 31 - 1, 2 ** 32 - 1]) if r.random() < 0.3 else r.randrange(2 ** 31)
            self.bump('seed=%s' % ('boundary' if seed in (0, 1, 2 ** 31 - 1, 2 ** 32 - 1) else 'random'))
            hist = self._gen_hist(r)
            yield dict(spec=spec, order2=order2, outputs=outputs, seed=seed, batch_size=r.choice([1, 2, 5]), hist=hist,
                       oracle=[r.random() < 0.45 for _ in range(r.randint(0, 60))], maxp=r.randint(2, 5),
                       client_mode=r.choice(['lazy', 'lazy', 'eager', 'shuffle']), samplers=(i % 3 == 0),
                       noise=r.randrange(2 ** 31), batch_indices=[r.randrange(0, 6) for _ in range(r.randint(2, 5))],
                       numeric=(i % 2 == 0), rejection=(i % 7 == 0), mp=(i % 5 == 0))

    def _gen_hist(self, r):
        """abstract history on ONE model object: generate calls (a few output selections and seeds, so that the same
        request recurs) interleaved with edits through the public API; names are resolved at run time against the
        current graph (floats in [0,1) index the sorted node names)"""
        k = r.randint(4, 10)
        nsel = r.randint(1, 3)
        sels = [None if r.random() < 0.4 else [r.random() for _ in range(r.randint(1, 5))] for _ in range(nsel)]
        nseeds = 1 if r.random() < 0.6 else 2

        def gen():
            return dict(op='gen', sel=sels[r.choice([0, 0] + list(range(nsel)))], seed=r.choice([0, 0] + list(range(nseeds))),
                        bs=r.choice([0, 0, 1, 3]), perturb=r.random() < 0.25)
        steps = [gen()]
        while len(steps) < k:
            c = r.random()
            if c < 0.38:
                st = gen()
            elif c < 0.62:
                st = dict(op='become', pick=r.random(), mode='same' if r.random() < 0.65 else 'other', keep_kind=r.random() < 0.85,
                          kind=r.choice(['Operation', 'Prior', 'Simulator', 'Summary', 'Constant']),
                          ppicks=[r.random() for _ in range(r.randint(0, 3))], obs=r.choice(['keep', 'keep', 'new', 'none']))
            elif c < 0.72:
                st = dict(op='observed', pick=r.random())
            elif c < 0.78:
                st = dict(op='meta', pick=r.random(), val=r.random() < 0.7)
            elif c < 0.86:
                st = dict(op='add', kind=r.choice(['Operation', 'Prior', 'Simulator', 'Summary', 'Constant', 'Discrepancy']),
                          ppicks=[r.random() for _ in range(r.randint(0, 3))], obs=r.random() < 0.5)
            elif c < 0.92:
                st = dict(op='remove', pick=r.random(), leaf=r.random() < 0.7)
            elif c < 0.96:
                st = dict(op='edge', pick=r.random(), ppick=r.random())
            else:
                st = dict(op='params', ppicks=[r.random() for _ in range(r.randint(0, 3))])
            steps.append(st)
        steps.append(gen())
        for st in steps:
            self.bump('hist_op=' + st['op'] + ('/' + st['mode'] if st['op'] == 'become' else ''))
        self.bump('hist_len=%d' % len(steps))
        return dict(steps=steps, seeds=[r.randrange(2 ** 31) for _ in range(nseeds - 1)])

    # -- histories on one model object -------------------------------------------------------------
    def _edit(self, m, st, k, rec=None):
        """one edit through the public API on the CURRENT graph of m; rec given = symbolic model (recording operations),
        otherwise the numeric twin.  Returns a short description (None = nothing applicable)."""
        import elfi
        names = sorted(n for n in m.source_net.nodes())
        if not names:
            return None
        op = st['op']

        def make(kind, tmp, opname, parents, observed, ver):
            ps = [m[x] for x in parents]
            if kind == 'Constant':
                return elfi.Constant((500 + k) if rec is not None else (0.5 + k) / 7.0, name=tmp, model=m)
            if kind == 'Prior':
                if rec is not None:
                    return elfi.Prior(RecDist(rec, opname), *ps, name=tmp, model=m)
                return elfi.Prior(NUM_FAMILIES[ver % len(NUM_FAMILIES)], *ps[:1], name=tmp, model=m)
            f = rec_op(rec, opname) if rec is not None else NUM_FUNCS[kind][ver % 3]
            if kind == 'Operation':
                return elfi.Operation(f, *ps, name=tmp, model=m)
            if kind == 'Simulator':
                return elfi.Simulator(f, *ps, name=tmp, model=m, observed=observed)
            if kind == 'Summary':
                return elfi.Summary(f, *ps, name=tmp, model=m, observed=observed)
            if kind == 'Discrepancy':
                return elfi.Discrepancy(f, *ps, name=tmp, model=m)
            raise ValueError(kind)

        def new_obs():
            return (3000 + k) if rec is not None else np.array([(3000 + k) / 1000.0])
        if op == 'become':
            a = pick(names, st['pick'])
            old_kind = node_class(m, a)
            kind = old_kind if (st['keep_kind'] or old_kind in ('Discrepancy', 'Constant')) else st['kind']
            if kind not in ('Operation', 'Prior', 'Simulator', 'Summary', 'Constant', 'Discrepancy'):
                return None
            parents = list(m.get_parents(a)) if st['mode'] == 'same' else pick_parents(non_descendants(m, a), st['ppicks'])
            if kind in ('Summary', 'Discrepancy') and not parents:
                return None
            observed = None
            if kind in ('Simulator', 'Summary'):
                observed = (m.observed.get(a) if st['obs'] == 'keep' else new_obs() if st['obs'] == 'new' else None)
            new = make(kind, 'T%d_%s' % (k, a), '%s_v%d' % (a, k), parents, observed, k)
            m[a].become(new)
            return 'become %s' % kind
        if op == 'observed':
            cands = [n for n in names if m.source_net.nodes[n]['attr_dict'].get('_observable')]
            a = pick(cands, st['pick'])
            if a is None:
                return None
            m.observed[a] = new_obs()
            return 'observed'
        if op == 'meta':
            if rec is None:
                return None
            a = pick([n for n in names if node_class(m, n) in ('Operation', 'Simulator', 'Summary')], st['pick'])
            if a is None:
                return None
            m[a].uses_meta = st['val']
            return 'meta'
        if op == 'add':
            kind = st['kind']
            parents = pick_parents(names, st['ppicks'])
            if kind in ('Summary', 'Discrepancy') and not parents:
                return None
            if kind == 'Discrepancy' and rec is None:
                parents = [x for x in parents if m.source_net.nodes[x]['attr_dict'].get('_observable')]
                if not parents:
                    return None
            nm = 'N%d' % k
            make(kind, nm, nm, parents, new_obs() if (st['obs'] and kind in ('Simulator', 'Summary')) else None, k)
            return 'add %s' % kind
        if op == 'remove':
            leaves = [n for n in names if m.source_net.out_degree(n) == 0]
            a = pick(leaves if (st['leaf'] and leaves) else names, st['pick'])
            m.remove_node(a)
            return 'remove'
        if op == 'edge':
            if rec is None:
                return None
            b = pick([n for n in names if node_class(m, n) in ('Operation', 'Simulator', 'Summary')], st['pick'])
            if b is None:
                return None
            a = pick([x for x in non_descendants(m, b) if not m.source_net.has_edge(x, b)], st['ppick'])
            if a is None:
                return None
            m.add_edge(a, b, 'kw_' + a)
            return 'edge'
        if op == 'params':
            m.parameter_names = pick_parents(names, st['ppicks'])
            return 'params'
        raise ValueError(op)

    def _history(self, case, m, rec=None):
        """run the abstract history on the ONE model object m; at every generate step also build a fresh equivalent of the
        current graph and generate on it with the same arguments"""
        import elfi
        h = case['hist']
        seeds = [case['seed']] + list(h['seeds'])
        rnd = random.Random(case['noise'] + (1 if rec is None else 2))
        resolved = {}
        seen = {}
        steps = []
        for k, st in enumerate(h['steps']):
            if st['op'] != 'gen':
                try:
                    what = self._edit(m, st, k, rec)
                    self.bump('hist_%s_edit=%s' % ('sym' if rec is not None else 'num', what or 'not-applicable'))
                except Exception as e:
                    self.bump('hist_%s_edit=raised' % ('sym' if rec is not None else 'num'))
                continue
            outputs = resolve_outputs(m, st, resolved)
            seed = seeds[st['seed']]
            bs = case['batch_size'] + st['bs']
            if st['perturb']:
                self._perturb(case)
            g = m.source_net
            key = (None if outputs is None else tuple(sorted(outputs)), seed, bs, g.number_of_nodes(), g.number_of_edges())
            sig = snet_of_model(m) if rec is not None else repr(sorted((n, id(d['attr_dict'].get('_operation')), repr(d['attr_dict'].get('_output')))
                                                                        for n, d in g.nodes(data=True))) + repr(sorted(g.edges(data='param'))) + repr(sorted((a, repr(b)) for a, b in m.observed.items()))
            if key in seen and seen[key] != sig:
                self.bump('hist_%s_gen=same request and graph size as an earlier call, graph edited in between' % ('sym' if rec is not None else 'num'))
            seen[key] = sig
            all_names = list(g.nodes())
            fresh = rebuild(m, rnd)
            if rec is not None:
                r_obj, c_obj = self._sym_gen(m, rec, bs, outputs, seed)
                r_new, c_new = self._sym_gen(fresh, rec, bs, outputs, seed)
                self.bump('hist_sym_gen=' + ('returned' if r_obj.get('ok') else 'raised'))
                steps.append(dict(k=k, outputs=outputs, seed=seed, bs=bs, obj=r_obj, fresh=r_new,
                                  coq='{| h_src := %s; h_fresh := %s; h_outputs := %s; h_impl := %s; h_impl_fresh := %s |}' % (
                                      sig, snet_of_model(fresh), clist([cstr(x) for x in (all_names if outputs is None else outputs)]),
                                      c_obj, c_new)))
            else:
                steps.append(dict(k=k, outputs=outputs, seed=seed, bs=bs, obj=self._num_gen(m, bs, outputs, seed),
                                  fresh=self._num_gen(fresh, bs, outputs, seed)))
                self.bump('hist_num_gen=' + ('raised' if 'raised' in steps[-1]['obj'] else 'returned'))
        return steps

    def _num_gen(self, m, bs, outputs, seed):
        try:
            return blob(m.generate(bs, outputs, seed=seed))
        except Exception as e:
            return dict(raised=type(e).__name__)

    # -- symbolic runs ---------------------------------------------------------------------------
    def _sym_gen(self, m, rec, bs, outputs, seed):
        rec.reset()
        try:
            res = m.generate(bs, outputs, seed=seed)
            outs = sorted(res.items())
            coq = 'ImplOk %s %s' % (clist(['(%s, %s)' % (cstr(k), cvalue(v)) for k, v in outs]), clist([cstr(x) for x in rec.log]))
            return dict(ok=True, log=list(rec.log), draws=list(rec.draws), outs=[[k, jvalue(v)] for k, v in outs]), coq
        except Exception as e:
            return dict(ok=False, error='%s: %s' % (type(e).__name__, str(e)[:200])), 'ImplErr'

    def _sym_run(self, m, rec, case, outputs):
        return self._sym_gen(m, rec, case['batch_size'], outputs, case['seed'])

    def _perturb(self, case):
        """things that must not matter: global generator state, unrelated computations"""
        import elfi
        np.random.seed(case['noise'] % (2 ** 32))
        np.random.random(case['noise'] % 17)
        rec = Recorder()
        other = gen_spec(random.Random(case['noise']), n_nodes=4, named_edges=False)
        mo, _ = build_model(other, rec)
        try:
            mo.generate(2, None, seed=case['noise'] % 1000)
            mo.generate(1, None)
        except Exception:
            pass

    def run_impl(self, case):
        import elfi
        import elfi.clients.native as native
        elfi.set_client(native.Client())
        spec = case['spec']
        rec1, rec2 = Recorder(), Recorder()
        m1, _ = build_model(spec, rec1)
        m2, _ = build_model(spec, rec2, order=case['order2'])
        outputs = case['outputs']
        all_names = [s['name'] for s in spec]
        r1, c1 = self._sym_run(m1, rec1, case, outputs)
        self._perturb(case)
        r2, c2 = self._sym_run(m2, rec2, case, outputs)
        # repeat on the first model after the perturbation
        r1b, _ = self._sym_run(m1, rec1, case, outputs)
        # the generator handed to batch i must be RandomState(k-th distinct draw of RandomState(seed)) (C15's spec)
        gen_problems = []
        try:
            from elfi.client import BatchHandler
            from elfi.model.elfi_model import ComputationContext
            ctx = ComputationContext(batch_size=case['batch_size'], seed=case['seed'])
            bh = BatchHandler(m1, ctx, output_names=outputs or all_names)
            for bi in case['batch_indices']:
                rec1.reset()
                bh.compute(bi)
                if rec1.draws:
                    stream = np.random.RandomState(case['seed']).randint(2 ** 31, size=bi + 8, dtype='uint32')
                    distinct = list(dict.fromkeys(int(x) for x in stream))
                    rs = np.random.RandomState(distinct[bi])
                    expect = [int(rs.randint(2 ** 31)) for _ in rec1.draws]
                    if [d for _, d in rec1.draws] != expect:
                        gen_problems.append('batch %d: draws %r are not those of RandomState(sub_seed(seed,%d))' % (bi, rec1.draws[:3], bi))
        except Exception as e:
            if r1.get('ok'):
                gen_problems.append('BatchHandler.compute raised %s' % e)
        out = dict(sym1=r1, sym2=r2, sym1_repeat_equal=(r1 == r1b), gen_problems=gen_problems,
                   coq=dict(src1=snet_of_model(m1), src2=snet_of_model(m2), impl1=c1, impl2=c2,
                            outputs=clist([cstr(x) for x in (all_names if outputs is None else outputs)])),
                   numeric=None)
        # history of generate calls and edits on the ONE object m1 (which has generated above)
        hist = self._history(case, m1, rec1)
        out['hist'] = [dict((k, v) for k, v in st.items() if k != 'coq') for st in hist]
        out['coq']['hist'] = clist([st['coq'] for st in hist])
        if case.get('samplers'):
            out['samplers'] = self._samplers(case)
        if case['numeric']:
            out['numeric'] = self._numeric(case)
            self.bump('numeric=' + ('skipped' if 'skipped' in out['numeric'] else 'ran'))
            if case['mp'] and 'skipped' not in out['numeric']:
                self.bump('multiprocessing_client_compared')
            if case['rejection'] and 'skipped' not in out['numeric']:
                self.bump('rejection_compared')
        return out

    # -- numeric runs ----------------------------------------------------------------------------
    def _numeric(self, case):
        import elfi
        import elfi.clients.native as native
        problems = []
        spec = case['spec']
        outputs = case['outputs']
        bs, seed = case['batch_size'], case['seed']
        elfi.set_client(native.Client())
        try:
            ma = build_numeric(spec)
            ref = blob(ma.generate(bs, outputs, seed=seed))
        except Exception as e:
            return dict(skipped='numeric twin does not run: %s' % str(e)[:100], problems=[])
        self._perturb(case)
        elfi.set_client(native.Client())
        if blob(ma.generate(bs, outputs, seed=seed)) != ref:
            problems.append('repeat on same model differs')
        mb = build_numeric(spec, order=case['order2'])
        if blob(mb.generate(bs, outputs, seed=seed)) != ref:
            problems.append('other insertion order differs')
        if blob(ma.generate(bs, outputs, seed=(seed + 1) % 2 ** 32)) == ref and any(s['kind'] in ('prior', 'sim') for s in spec) and ref:
            stoch_out = [s['name'] for s in spec if s['kind'] in ('prior', 'sim')]
            if outputs is None or set(outputs) & set(stoch_out):
                problems.append('different seed gave identical stochastic outputs (seed ignored?)')
        # BatchHandler history on one context vs fresh contexts
        from elfi.client import BatchHandler
        from elfi.model.elfi_model import ComputationContext
        outs = outputs or [s['name'] for s in spec]
        ctx = ComputationContext(batch_size=bs, seed=seed)
        bh = BatchHandler(ma, ctx, output_names=outs)
        for bi in case['batch_indices']:
            got = blob(bh.compute(bi))
            fresh = blob(BatchHandler(mb, ComputationContext(batch_size=bs, seed=seed), output_names=outs).compute(bi))
            if got != fresh:
                problems.append('batch %d on a used context differs from a fresh context' % bi)
        # wave 4: submitted batches with overridden (supplied) nodes on the SAME used handler, as SMC / BOLFI / pool reuse submit
        # them: a batch is a function of (model, seed, batch index, supplied values), not of the batches the context ran before
        import random as _random
        import numpy as _np
        hr = _random.Random(seed)
        cands = sorted(k for k in bh.compiled_net.nodes if 'operation' in bh.compiled_net.nodes[k] and not k.startswith('_'))
        if cands:
            sets = [{}] + [{k: _np.full(bs, 0.25 + 0.5 * j)} for j, k in enumerate(hr.sample(cands, min(4, len(cands))))] \
                + [{k: _np.full(bs, 0.25 + 0.5 * j) for j, k in enumerate(cands) if hr.random() < 0.4}] + [{}]
            self.bump('override history batches=%d' % len(sets))
            for i, sup in enumerate(sets):
                fh = BatchHandler(mb, ComputationContext(batch_size=bs, seed=seed), output_names=outs)
                fh._next_batch_index = bh._next_batch_index = 10 + i
                try:
                    fh.submit(batch=dict(sup))
                    fresh = blob(fh.wait_next()[0])
                except Exception:
                    self.bump('override history: supplied values not accepted by the numeric twin')
                    continue
                bh.submit(batch=dict(sup))
                if blob(bh.wait_next()[0]) != fresh:
                    problems.append('submitted batch %d with supplied %s after supplied sets %s on a used context differs from a fresh context'
                                    % (10 + i, sorted(sup), [sorted(x) for x in sets[:i]]))
        if len(set(case['batch_indices'])) > 1:
            a = blob(bh.compute(case['batch_indices'][0]))
            bdiff = [bi for bi in case['batch_indices'] if bi != case['batch_indices'][0]][0]
            if a == blob(bh.compute(bdiff)) and any(s['kind'] in ('prior', 'sim') for s in spec):
                pass  # outputs may be all deterministic for the requested nodes
        if case['mp']:
            try:
                elfi.set_client(mp_client())
                if blob(ma.generate(bs, outputs, seed=seed)) != ref:
                    problems.append('multiprocessing client differs from native')
                if blob(BatchHandler(ma, ComputationContext(batch_size=bs, seed=seed), output_names=outs).compute(case['batch_indices'][0])) != \
                        blob(BatchHandler(mb, ComputationContext(batch_size=bs, seed=seed), output_names=outs, client=native.Client()).compute(case['batch_indices'][0])):
                    problems.append('multiprocessing BatchHandler.compute differs from native')
            finally:
                elfi.set_client(native.Client())
        if case['rejection']:
            problems += self._rejection(case, ma, mb)
        # history of generate calls and edits on the ONE object ma (after everything above was computed on it)
        elfi.set_client(native.Client())
        hist_problems = []
        for st in self._history(case, ma):
            if st['obj'] != st['fresh']:
                hist_problems.append('step %d: generate(%d, %r, seed=%d) on the edited object differs from a freshly built model with the same graph'
                                     % (st['k'], st['bs'], st['outputs'], st['seed']))
        return dict(problems=problems, n_outputs=len(ref), hist_problems=hist_problems)

    def _rejection(self, case, ma, mb):
        import elfi
        problems = []
        spec = case['spec']
        discs = [s['name'] for s in spec if s['kind'] == 'disc']
        pri = [s['name'] for s in spec if s['kind'] == 'prior']
        if not discs or not pri:
            return problems
        d = discs[-1]
        try:
            res = []
            for m in (ma, mb, ma):
                self._perturb(case)
                import elfi.clients.native as native
                elfi.set_client(native.Client())
                rj = elfi.Rejection(m[d], batch_size=case['batch_size'] + 1, seed=case['seed'])
                s = rj.sample(3, n_sim=12, bar=False)
                res.append((blob(s.outputs), float(s.threshold), int(s.n_sim)))
            if not (res[0] == res[1] == res[2]):
                problems.append('seeded Rejection runs differ between repeats / insertion orders')
        except Exception as e:
            self.bump('rejection_skipped')
        return problems

    def _samplers(self, case):
        """seeded Rejection / SMC on the native client vs a scripted client that keeps several batches in flight,
        answers is_ready as scripted and executes tasks late / early / in shuffled order: bit-identical results"""
        import elfi
        import elfi.clients.native as native
        import rejmodels
        from sclient import ScriptedClient
        problems = []
        r = random.Random(case['noise'])
        cfg = dict(n_params=r.randint(1, 2), levels=r.choice([3, 4, 8, 1000]), width=r.choice([1, 2]), cut=None, inf_above=None)
        seed, b = case['seed'], r.choice([1, 2, 3, 5])
        n = r.choice([3, 5, 8])

        def run(kind, client, maxp):
            elfi.set_client(client)
            m = rejmodels.build(cfg)
            if kind == 'rej':
                inf = elfi.Rejection(m['d'], batch_size=b, seed=seed, output_names=['s1'], max_parallel_batches=maxp)
                s = inf.sample(n, quantile=0.34, bar=False)
                return (blob(s.outputs), float(s.threshold), int(s.n_sim))
            inf = elfi.SMC(m['d'], batch_size=b, seed=seed, output_names=['s1'], max_parallel_batches=maxp)
            s = inf.sample(n, quantiles=[0.5, 0.5, 0.5], bar=False)
            return tuple((blob(p.outputs), float(p.threshold), int(p.n_sim), np.asarray(p.weights).tobytes().hex())
                         for p in s.populations)
        for kind in ('rej', 'smc'):
            try:
                try:
                    ref = run(kind, native.Client(), 1)
                except Exception as e:
                    self.bump('sampler_%s_skipped' % kind)
                    continue
                self._perturb(case)
                got = run(kind, ScriptedClient(oracle=case['oracle'], mode=case['client_mode'], num_cores=2, seed=case['noise']),
                          case['maxp'])
                self.bump('sampler_%s_compared' % kind)
                if got != ref:
                    problems.append('seeded %s run with %d batches in flight on a %s client differs from the sequential native run'
                                    % (kind, case['maxp'], case['client_mode']))
                self._perturb(case)
                if run(kind, native.Client(), 1) != ref:
                    problems.append('seeded %s run differs when repeated' % kind)
            except np.linalg.LinAlgError:
                self.bump('sampler_%s_singular' % kind)
            finally:
                elfi.set_client(native.Client())
        return dict(problems=problems)

    def py_check(self, case, out):
        fails = []
        if out.get('samplers') and out['samplers'].get('problems'):
            fails.append(('client_independent', '; '.join(out['samplers']['problems'])))
        if not out['sym1_repeat_equal']:
            fails.append(('repeatable', 'second seeded generate on the same model differs (outputs, call order or draws)'))
        s1, s2 = out['sym1'], out['sym2']
        if s1.get('ok') and s2.get('ok') and s1['draws'] != s2['draws']:
            fails.append(('draws', 'draws from the batch generator differ between insertion orders: %r vs %r' % (s1['draws'][:4], s2['draws'][:4])))
        if out.get('gen_problems'):
            fails.append(('generator_seed', '; '.join(out['gen_problems'][:2])))
        if out['numeric'] and out['numeric'].get('problems'):
            fails.append(('bit_identical', '; '.join(out['numeric']['problems'])))
        if out['numeric'] and out['numeric'].get('hist_problems'):
            fails.append(('history_bit_identical', '; '.join(out['numeric']['hist_problems'][:3])))
        for st in out.get('hist', []):
            if st['obj'].get('ok') and st['fresh'].get('ok') and st['obj']['draws'] != st['fresh']['draws']:
                fails.append(('history_draws', 'step %d: draws from the batch generator on the edited object differ from the fresh build: %r vs %r'
                              % (st['k'], st['obj']['draws'][:4], st['fresh']['draws'][:4])))
                break
        return fails

    def nontrivial(self, case, out):
        if not out['sym1'].get('ok') or len(out['sym1']['draws']) < 2:
            return None
        return json.dumps([case['spec'], case['order2'], case['outputs'], case['seed']], sort_keys=True)

    def to_coq(self, case, out):
        c = out['coq']
        return '{| d_src1 := %s; d_src2 := %s; d_outputs := %s; d_impl1 := %s; d_impl2 := %s; d_hist := %s |}' % (
            c['src1'], c['src2'], c['outputs'], c['impl1'], c['impl2'], c['hist'])


if __name__ == '__main__':
    rc = run_check(C02)
    if 'c' in _MP:
        try:
            _MP['c'].reset()
        except Exception:
            pass
    sys.exit(rc)
