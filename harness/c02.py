"""C02 — seeded runs are pure functions of (model, seed, configuration)."""
import numpy as np
from common import *
from graphgen import *


# ---- numeric, picklable operations (module level) for bit-identity runs under both clients ----
def num_sim(*params, batch_size=1, random_state=None):
    x = random_state.normal(size=batch_size)
    for p in params:
        x = x + np.asarray(p, dtype=float)
    return x


def num_sum(*parents):
    x = 0.0
    for p in parents:
        x = x + np.asarray(p, dtype=float) ** 2
    return np.sqrt(x)


def num_op(*parents):
    x = 1.0
    for p in parents:
        x = x + np.sin(np.asarray(p, dtype=float))
    return x


def num_disc(*parents, observed=None):
    d = 0.0
    for p, o in zip(parents, observed):
        d = d + np.abs(np.asarray(p, dtype=float) - np.asarray(o, dtype=float))
    return np.asarray(d).reshape(-1) if np.ndim(d) else d


def build_numeric(spec, order=None):
    import elfi
    m = elfi.ElfiModel(name='num')
    refs = {}
    todo = list(spec) if order is None else [next(s for s in spec if s['name'] == n) for n in order]
    for nd in todo:
        ps = [refs[p] for p, _ in sorted(nd['parents'], key=lambda x: x[1])]
        nm, k = nd['name'], nd['kind']
        if k == 'const':
            r = elfi.Constant(float(nd['value']) / 100.0, name=nm, model=m)
        elif k == 'op':
            r = elfi.Operation(num_op, *ps, name=nm, model=m)
        elif k == 'prior':
            r = elfi.Prior('normal', *(ps[:1]), name=nm, model=m)
        elif k == 'sim':
            r = elfi.Simulator(num_sim, *ps, name=nm, model=m,
                               observed=None if nd['observed'] is None else np.array([nd['observed'] / 1000.0]))
        elif k == 'summary':
            r = elfi.Summary(num_sum, *ps, name=nm, model=m,
                             observed=None if nd['observed'] is None else np.array([nd['observed'] / 1000.0]))
        elif k == 'disc':
            r = elfi.Discrepancy(num_disc, *ps, name=nm, model=m)
        refs[nm] = r
    return m


def blob(res):
    return {k: (np.asarray(v).dtype.str, np.asarray(v).shape, np.asarray(v).tobytes().hex()) for k, v in sorted(res.items())}


_MP = {}


def mp_client():
    import elfi.clients.multiprocessing as mp
    if 'c' not in _MP:
        _MP['c'] = mp.Client(num_processes=2)
    return _MP['c']


class C02(PropCheck):
    pid = 'C02'
    header = ('From Coq Require Import List String ZArith Bool.\n'
              'From Elfi Require Import Base.Harness Graph.Net Graph.Denote Graph.Determinism.\nImport ListNotations.\n')
    case_type = 'Determinism.case'
    preds = (('Determinism.agree', 'agree'), ('Determinism.ok', 'ok'))
    chunk = 80
    build_targets = ('Graph/Determinism.vo',)
    rule = ('random named DAGs built twice in different valid insertion orders (recording operations; call order = order of draws '
            'from the batch generator), run with one seed, the second run after reseeding/consuming np.random and unrelated '
            'generate calls; plus numeric twins of the same graphs compared bit for bit (tobytes) between repeated runs, insertion '
            'orders, native vs multiprocessing client, BatchHandler histories sharing one context vs fresh contexts, and repeated '
            'seeded Rejection runs; boundary seeds 0, 1, 2^31-1, 2^32-1 in 30% of the cases; every third case a seeded Rejection and a 3-population SMC run on '
            'the native client vs a scripted client keeping 2-5 batches in flight (scripted is_ready answers, lazy/eager/shuffled execution); non-trivial = at least two stochastic operations ran; distinct by (spec, order2, outputs, seed)')
    trusted = ('numpy RandomState(seed) is a pure function of the seed; multiprocessing transport (pickle) is the identity on nets (sampled with 2 workers)',)

    def generate(self):
        n = 70 if self.tier == 'quick' else 1200
        r = self.rng
        for i in range(n):
            spec = gen_spec(r, n_nodes=r.randint(3, 9), named_edges=False, allow_meta=(i % 3 == 0))
            # no unobserved sim feeding discrepancies issues matter here: symbolic ops accept anything
            names = [s['name'] for s in spec]
            order2 = valid_orders(spec, r, 1)[0]
            outputs = r.choice([None, r.sample(names, r.randint(1, len(names)))])
            self.bump('n_nodes=%d' % len(spec))
            self.bump('reordered=%s' % (order2 != names))
            seed = r.choice([0, 0, 1, 2 ** 31 - 1, 2 ** 32 - 1]) if r.random() < 0.3 else r.randrange(2 ** 31)
            self.bump('seed=%s' % ('boundary' if seed in (0, 1, 2 ** 31 - 1, 2 ** 32 - 1) else 'random'))
            yield dict(spec=spec, order2=order2, outputs=outputs, seed=seed, batch_size=r.choice([1, 2, 5]),
                       oracle=[r.random() < 0.45 for _ in range(r.randint(0, 60))], maxp=r.randint(2, 5),
                       client_mode=r.choice(['lazy', 'lazy', 'eager', 'shuffle']), samplers=(i % 3 == 0),
                       noise=r.randrange(2 ** 31), batch_indices=[r.randrange(0, 6) for _ in range(r.randint(2, 5))],
                       numeric=(i % 2 == 0), rejection=(i % 7 == 0), mp=(i % 5 == 0))

    # -- symbolic runs ---------------------------------------------------------------------------
    def _sym_run(self, m, rec, case, outputs):
        rec.reset()
        try:
            res = m.generate(case['batch_size'], outputs, seed=case['seed'])
            outs = sorted(res.items())
            coq = 'ImplOk %s %s' % (clist(['(%s, %s)' % (cstr(k), cvalue(v)) for k, v in outs]), clist([cstr(x) for x in rec.log]))
            return dict(ok=True, log=list(rec.log), draws=list(rec.draws), outs=[[k, jvalue(v)] for k, v in outs]), coq
        except Exception as e:
            return dict(ok=False, error='%s: %s' % (type(e).__name__, str(e)[:200])), 'ImplErr'

    def _perturb(self, case):
        """things that must not matter: global generator state, unrelated computations"""
        import elfi
        np.random.seed(case['noise'] % (2 ** 32))
        np.random.random(case['noise'] % 17)
        rec = Recorder()
        other = gen_spec(random.Random(case['noise']), n_nodes=4, named_edges=False)
        mo, _ = build_model(other, rec)
        try:
            mo.generate(2, None, seed=case['noise'] % 1000)
            mo.generate(1, None)
        except Exception:
            pass

    def run_impl(self, case):
        import elfi
        import elfi.clients.native as native
        elfi.set_client(native.Client())
        spec = case['spec']
        rec1, rec2 = Recorder(), Recorder()
        m1, _ = build_model(spec, rec1)
        m2, _ = build_model(spec, rec2, order=case['order2'])
        outputs = case['outputs']
        all_names = [s['name'] for s in spec]
        r1, c1 = self._sym_run(m1, rec1, case, outputs)
        self._perturb(case)
        r2, c2 = self._sym_run(m2, rec2, case, outputs)
        # repeat on the first model after the perturbation
        r1b, _ = self._sym_run(m1, rec1, case, outputs)
        # the generator handed to batch i must be RandomState(k-th distinct draw of RandomState(seed)) (C15's spec)
        gen_problems = []
        try:
            from elfi.client import BatchHandler
            from elfi.model.elfi_model import ComputationContext
            ctx = ComputationContext(batch_size=case['batch_size'], seed=case['seed'])
            bh = BatchHandler(m1, ctx, output_names=outputs or all_names)
            for bi in case['batch_indices']:
                rec1.reset()
                bh.compute(bi)
                if rec1.draws:
                    stream = np.random.RandomState(case['seed']).randint(2 ** 31, size=bi + 8, dtype='uint32')
                    distinct = list(dict.fromkeys(int(x) for x in stream))
                    rs = np.random.RandomState(distinct[bi])
                    expect = [int(rs.randint(2 ** 31)) for _ in rec1.draws]
                    if [d for _, d in rec1.draws] != expect:
                        gen_problems.append('batch %d: draws %r are not those of RandomState(sub_seed(seed,%d))' % (bi, rec1.draws[:3], bi))
        except Exception as e:
            if r1.get('ok'):
                gen_problems.append('BatchHandler.compute raised %s' % e)
        out = dict(sym1=r1, sym2=r2, sym1_repeat_equal=(r1 == r1b), gen_problems=gen_problems,
                   coq=dict(src1=snet_of_model(m1), src2=snet_of_model(m2), impl1=c1, impl2=c2,
                            outputs=clist([cstr(x) for x in (all_names if outputs is None else outputs)])),
                   numeric=None)
        if case.get('samplers'):
            out['samplers'] = self._samplers(case)
        if case['numeric']:
            out['numeric'] = self._numeric(case)
            self.bump('numeric=' + ('skipped' if 'skipped' in out['numeric'] else 'ran'))
            if case['mp'] and 'skipped' not in out['numeric']:
                self.bump('multiprocessing_client_compared')
            if case['rejection'] and 'skipped' not in out['numeric']:
                self.bump('rejection_compared')
        return out

    # -- numeric runs ----------------------------------------------------------------------------
    def _numeric(self, case):
        import elfi
        import elfi.clients.native as native
        problems = []
        spec = case['spec']
        outputs = case['outputs']
        bs, seed = case['batch_size'], case['seed']
        elfi.set_client(native.Client())
        try:
            ma = build_numeric(spec)
            ref = blob(ma.generate(bs, outputs, seed=seed))
        except Exception as e:
            return dict(skipped='numeric twin does not run: %s' % str(e)[:100], problems=[])
        self._perturb(case)
        elfi.set_client(native.Client())
        if blob(ma.generate(bs, outputs, seed=seed)) != ref:
            problems.append('repeat on same model differs')
        mb = build_numeric(spec, order=case['order2'])
        if blob(mb.generate(bs, outputs, seed=seed)) != ref:
            problems.append('other insertion order differs')
        if blob(ma.generate(bs, outputs, seed=(seed + 1) % 2 ** 32)) == ref and any(s['kind'] in ('prior', 'sim') for s in spec) and ref:
            stoch_out = [s['name'] for s in spec if s['kind'] in ('prior', 'sim')]
            if outputs is None or set(outputs) & set(stoch_out):
                problems.append('different seed gave identical stochastic outputs (seed ignored?)')
        # BatchHandler history on one context vs fresh contexts
        from elfi.client import BatchHandler
        from elfi.model.elfi_model import ComputationContext
        outs = outputs or [s['name'] for s in spec]
        ctx = ComputationContext(batch_size=bs, seed=seed)
        bh = BatchHandler(ma, ctx, output_names=outs)
        for bi in case['batch_indices']:
            got = blob(bh.compute(bi))
            fresh = blob(BatchHandler(mb, ComputationContext(batch_size=bs, seed=seed), output_names=outs).compute(bi))
            if got != fresh:
                problems.append('batch %d on a used context differs from a fresh context' % bi)
        if len(set(case['batch_indices'])) > 1:
            a = blob(bh.compute(case['batch_indices'][0]))
            bdiff = [bi for bi in case['batch_indices'] if bi != case['batch_indices'][0]][0]
            if a == blob(bh.compute(bdiff)) and any(s['kind'] in ('prior', 'sim') for s in spec):
                pass  # outputs may be all deterministic for the requested nodes
        if case['mp']:
            try:
                elfi.set_client(mp_client())
                if blob(ma.generate(bs, outputs, seed=seed)) != ref:
                    problems.append('multiprocessing client differs from native')
                if blob(BatchHandler(ma, ComputationContext(batch_size=bs, seed=seed), output_names=outs).compute(case['batch_indices'][0])) != \
                        blob(BatchHandler(mb, ComputationContext(batch_size=bs, seed=seed), output_names=outs, client=native.Client()).compute(case['batch_indices'][0])):
                    problems.append('multiprocessing BatchHandler.compute differs from native')
            finally:
                elfi.set_client(native.Client())
        if case['rejection']:
            problems += self._rejection(case, ma, mb)
        return dict(problems=problems, n_outputs=len(ref))

    def _rejection(self, case, ma, mb):
        import elfi
        problems = []
        spec = case['spec']
        discs = [s['name'] for s in spec if s['kind'] == 'disc']
        pri = [s['name'] for s in spec if s['kind'] == 'prior']
        if not discs or not pri:
            return problems
        d = discs[-1]
        try:
            res = []
            for m in (ma, mb, ma):
                self._perturb(case)
                import elfi.clients.native as native
                elfi.set_client(native.Client())
                rj = elfi.Rejection(m[d], batch_size=case['batch_size'] + 1, seed=case['seed'])
                s = rj.sample(3, n_sim=12, bar=False)
                res.append((blob(s.outputs), float(s.threshold), int(s.n_sim)))
            if not (res[0] == res[1] == res[2]):
                problems.append('seeded Rejection runs differ between repeats / insertion orders')
        except Exception as e:
            self.bump('rejection_skipped')
        return problems

    def _samplers(self, case):
        """seeded Rejection / SMC on the native client vs a scripted client that keeps several batches in flight,
        answers is_ready as scripted and executes tasks late / early / in shuffled order: bit-identical results"""
        import elfi
        import elfi.clients.native as native
        import rejmodels
        from sclient import ScriptedClient
        problems = []
        r = random.Random(case['noise'])
        cfg = dict(n_params=r.randint(1, 2), levels=r.choice([3, 4, 8, 1000]), width=r.choice([1, 2]), cut=None, inf_above=None)
        seed, b = case['seed'], r.choice([1, 2, 3, 5])
        n = r.choice([3, 5, 8])

        def run(kind, client, maxp):
            elfi.set_client(client)
            m = rejmodels.build(cfg)
            if kind == 'rej':
                inf = elfi.Rejection(m['d'], batch_size=b, seed=seed, output_names=['s1'], max_parallel_batches=maxp)
                s = inf.sample(n, quantile=0.34, bar=False)
                return (blob(s.outputs), float(s.threshold), int(s.n_sim))
            inf = elfi.SMC(m['d'], batch_size=b, seed=seed, output_names=['s1'], max_parallel_batches=maxp)
            s = inf.sample(n, quantiles=[0.5, 0.5, 0.5], bar=False)
            return tuple((blob(p.outputs), float(p.threshold), int(p.n_sim), np.asarray(p.weights).tobytes().hex())
                         for p in s.populations)
        for kind in ('rej', 'smc'):
            try:
                try:
                    ref = run(kind, native.Client(), 1)
                except Exception as e:
                    self.bump('sampler_%s_skipped' % kind)
                    continue
                self._perturb(case)
                got = run(kind, ScriptedClient(oracle=case['oracle'], mode=case['client_mode'], num_cores=2, seed=case['noise']),
                          case['maxp'])
                self.bump('sampler_%s_compared' % kind)
                if got != ref:
                    problems.append('seeded %s run with %d batches in flight on a %s client differs from the sequential native run'
                                    % (kind, case['maxp'], case['client_mode']))
                self._perturb(case)
                if run(kind, native.Client(), 1) != ref:
                    problems.append('seeded %s run differs when repeated' % kind)
            except np.linalg.LinAlgError:
                self.bump('sampler_%s_singular' % kind)
            finally:
                elfi.set_client(native.Client())
        return dict(problems=problems)

    def py_check(self, case, out):
        fails = []
        if out.get('samplers') and out['samplers'].get('problems'):
            fails.append(('client_independent', '; '.join(out['samplers']['problems'])))
        if not out['sym1_repeat_equal']:
            fails.append(('repeatable', 'second seeded generate on the same model differs (outputs, call order or draws)'))
        s1, s2 = out['sym1'], out['sym2']
        if s1.get('ok') and s2.get('ok') and s1['draws'] != s2['draws']:
            fails.append(('draws', 'draws from the batch generator differ between insertion orders: %r vs %r' % (s1['draws'][:4], s2['draws'][:4])))
        if out.get('gen_problems'):
            fails.append(('generator_seed', '; '.join(out['gen_problems'][:2])))
        if out['numeric'] and out['numeric'].get('problems'):
            fails.append(('bit_identical', '; '.join(out['numeric']['problems'])))
        return fails

    def nontrivial(self, case, out):
        if not out['sym1'].get('ok') or len(out['sym1']['draws']) < 2:
            return None
        return json.dumps([case['spec'], case['order2'], case['outputs'], case['seed']], sort_keys=True)

    def to_coq(self, case, out):
        c = out['coq']
        return '{| d_src1 := %s; d_src2 := %s; d_outputs := %s; d_impl1 := %s; d_impl2 := %s |}' % (
            c['src1'], c['src2'], c['outputs'], c['impl1'], c['impl2'])


if __name__ == '__main__':
    rc = run_check(C02)
    if 'c' in _MP:
        try:
            _MP['c'].reset()
        except Exception:
            pass
    sys.exit(rc)
