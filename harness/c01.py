"""C01 — rejection ABC returns exactly the best simulated draws, row-consistent.

One case = a HISTORY: one Rejection instance on which 1-4 consecutive runs are made (sample / infer /
set_objective + iterate), each with its own objective.  Every run is compared with the model's run on the
instance as the earlier runs left it (Reject.hagree; by C01_history_runs_are_fresh that is the fresh run) and
the property's decidable statement is evaluated on every run's result against the record of the draws that
run consumed (Reject.hok)."""
import contextlib
import io
import math
import numpy as np
from functools import partial
from common import *
import rejmodels
from sclient import ScriptedClient


def cbig(n):
    """a nat that may exceed the numeral limit of cnat"""
    return cnat(n) if int(n) < 4000 else '(N.to_nat %s)' % cn(n)


def cdisc(v):
    return 'PInf' if v is None else '(Fin %s)' % cz(v)


# ---- a second model family: discrete simulator (Poisson counts), exact matches attainable -------------
def pois_sim(*params, batch_size=1, random_state=None, width=2, scale=1.5):
    lam = 0.5
    for p in params:
        lam = lam + scale * np.abs(np.asarray(p, dtype=float).reshape(-1, 1))
    lam = np.broadcast_to(lam, (batch_size, width))
    return random_state.poisson(lam).astype(float)


def pois_disc(s, observed=None, inf_above=None):
    s = np.asarray(s, dtype=float).reshape(len(s), -1)[:, 0]
    o = float(np.asarray(observed[0]).reshape(-1)[0])
    d = np.abs(s - o)
    if inf_above is not None:
        d = np.where(d > inf_above, np.inf, d)
    return d


def build_model(cfg):
    """cfg: dict(kind, two_params, width, levels, inf_above[, obs])"""
    if cfg.get('kind', 'normal') == 'normal':
        return rejmodels.build(cfg)
    import elfi
    m = elfi.ElfiModel(name='rejp')
    t1 = elfi.Prior('uniform', -1, 2, model=m, name='t1')
    params = [t1]
    if cfg.get('two_params'):
        t2 = elfi.Prior('normal', t1, 0.5, model=m, name='t2')
        params.append(t2)
    w = cfg.get('width', 2)
    sim = elfi.Simulator(partial(pois_sim, width=w), *params, model=m, name='sim',
                         observed=np.full((1, w), float(cfg.get('obs', 1))))
    s1 = elfi.Summary(rejmodels.summ_fn, sim, model=m, name='s1')
    elfi.Discrepancy(partial(pois_disc, inf_above=cfg.get('inf_above')), s1, model=m, name='d')
    return m


def disc_value(x):
    """integer-valued or +inf by construction of the models; anything else is a harness/implementation mismatch"""
    x = float(x)
    if np.isinf(x) and x > 0:
        return None
    if x != x or x != math.floor(x):
        raise ValueError('discrepancy %r is neither an integer value nor +inf' % x)
    return int(x)


THR_TYPES = ('int', 'float', 'npfloat', 'npint')


def thr_python(t):
    """the threshold object handed to the implementation"""
    if t is None:
        return np.inf
    v, ty = t['v'], t['ty']
    if ty == 'int':
        return int(v)
    if ty == 'npint':
        return np.int64(v)
    if ty == 'npfloat':
        return np.float64(v)
    return float(v)


def thr_model(t):
    """integer discrepancies: d <= t  iff  d <= floor(t)"""
    return None if t is None else int(math.floor(float(t['v'])))


class C01(PropCheck):
    pid = 'C01'
    header = ('From Coq Require Import List ZArith NArith Bool PrimFloat.\n'
              'From Elfi Require Import Base.Harness Sched.Sched Sched.Reject.\nImport ListNotations.\n')
    case_type = 'Reject.hcase'
    preds = (('Reject.hagree', 'agree'), ('Reject.hok', 'ok'))
    chunk = 60
    case_timeout = 60
    build_targets = ('Sched/Reject.vo',)
    rule = ('histories of 1-4 consecutive runs (sample with/without progress bar | infer | set_objective + iterate + extract_result, '
            'pending batches cancelled or left to the next set_objective) on ONE real Rejection instance, every run with its own '
            'n_samples and objective (threshold | quantile | n_sim | default), the pool kept (later runs re-read stored batches) or '
            'emptied between runs; small models: uniform / hierarchical priors, vector simulator output, gaussian simulator with '
            'integer-valued discrepancies from 2-8 levels or Poisson-count simulator with |count - observed| (ties forced, exact 0 '
            'attainable), optional +inf discrepancy on part of the parameter space (inf_above 0-3, so that fewer than n_samples '
            'finite draws exist); thresholds: 0 / 0.0 / -0.0 / values between and equal to attained discrepancies / 1e-9 / 1e-300 / '
            '+inf, as python int, float, numpy int64 and float64; batch sizes 1-7 not dividing budgets, n_samples <,=,> batch_size, '
            'max_parallel 1-4 under a scripted client; the record of what a run consumed = the batches the scripted client handed '
            'out in that run (by batch index) read from an OutputPool storing every requested output; every run compared with the '
            'model run on the instance state left by the earlier runs and judged by `ok` against its own record; earlier results must '
            'stay bit-identical after later runs; non-trivial = some run has a tie at the cut, an infinite discrepancy among the '
            'consumed draws, a budget not divisible by the batch size, a boundary threshold, or the history has >1 run; distinct by '
            'full configuration')
    trusted = ('np.lexsort is a stable sort (the model uses a stable insertion sort); float arithmetic of the batch estimator is '
               'modelled bit-exactly in PrimFloat',
               'thresholds reach the model as floor(threshold): every discrepancy of the harness models is an integer value or +inf '
               '(checked per draw), for which d <= t iff d <= floor(t)')

    # ---- generation ------------------------------------------------------------------------------------
    def gen_run(self, r, b, cfg):
        ns = r.choice([1, 2, 3, 4, 6, 9])
        form = r.choice(['threshold', 'threshold', 'quantile', 'n_sim', 'n_sim', 'default'])
        run = dict(n=ns, form=form, drive=r.choice(['sample', 'sample', 'sample_bar', 'infer', 'iterate']),
                   cancel=r.random() < 0.5)
        if form == 'default':
            if ns * 100 > 400:
                form = run['form'] = 'quantile'
            else:
                run['quantile'] = 0.01
        if form == 'threshold':
            u = r.random()
            top = cfg['inf_above'] if cfg['inf_above'] is not None else 3
            if u < 0.3:
                t = dict(v=r.choice([0, 0, 0.0, -0.0]), ty=r.choice(THR_TYPES))           # exact matches only
            elif u < 0.45:
                t = dict(v=r.choice([1e-9, 1e-300, 0.5, 0.999999]), ty='float')           # below the first positive level
            elif u < 0.8:
                t = dict(v=r.choice([1, 2, 3, 4]), ty=r.choice(THR_TYPES))                # an attained value
            elif u < 0.9:
                t = dict(v=r.choice([1.5, 2.25, 0.75, 3.000001]), ty=r.choice(['float', 'npfloat']))
            elif cfg['inf_above'] is not None:
                t = None if r.random() < 0.6 else dict(v=top, ty=r.choice(THR_TYPES))     # +inf / the largest finite level
            else:
                t = dict(v=r.choice([1, 2]), ty='int')
            if t is not None and t['ty'] in ('int', 'npint'):
                t['v'] = int(math.floor(t['v']))
            run['threshold'] = t
        elif form == 'quantile':
            run['quantile'] = r.choice([0.5, 0.25, 0.1, 0.3, 0.2, 0.34, 1.0])
        elif form == 'n_sim':
            run['n_sim'] = ns + r.randint(0, 4 * b + 3)
        return run

    def generate(self):
        n = 300 if self.tier == 'quick' else 7000
        r = self.rng
        for i in range(n):
            b = r.choice([1, 2, 3, 4, 5, 7])
            kind = r.choice(['normal', 'normal', 'poisson'])
            cfg = dict(kind=kind, two_params=r.random() < 0.4, width=r.choice([1, 2, 3]), levels=r.choice([2, 3, 4, 8]),
                       inf_above=(r.choice([0, 1, 1, 2, 3]) if r.random() < 0.5 else None), obs=r.choice([0, 1, 2]))
            n_runs = r.choice([1, 1, 2, 2, 3, 4])
            case = dict(cfg=cfg, b=b, seed=r.randrange(2 ** 31), maxp=r.choice([1, 1, 2, 3, 4]),
                        mode=r.choice(['lazy', 'eager', 'shuffle']), oracle=[r.random() < 0.5 for _ in range(60 * n_runs)],
                        keep_pool=r.random() < 0.5, runs=[self.gen_run(r, b, cfg) for _ in range(n_runs)])
            self.bump('runs=%d' % n_runs)
            self.bump('b=%d' % b)
            self.bump('kind=' + kind)
            self.bump('inf=%s' % (cfg['inf_above'] is not None))
            self.bump('keep_pool=%s' % case['keep_pool'])
            for k, run in enumerate(case['runs']):
                self.bump('form=' + run['form'])
                self.bump('drive=' + run['drive'])
                if run['form'] == 'threshold':
                    t = run['threshold']
                    self.bump('thr=' + ('inf' if t is None else 'zero' if float(t['v']) == 0 else
                                        'below1' if float(t['v']) < 1 else 'attained' if float(t['v']) == int(t['v']) else 'between'))
                    if t is not None:
                        self.bump('thr_type=' + t['ty'])
                if k > 0:
                    prev = case['runs'][k - 1]
                    self.bump('n_vs_prev=%s' % ('<' if run['n'] < prev['n'] else '=' if run['n'] == prev['n'] else '>'))
                    self.bump('form_after=%s>%s' % (prev['form'], run['form']))
            yield case

    # ---- the implementation ----------------------------------------------------------------------------
    def one_run(self, rej, run):
        kw = {}
        if run['form'] == 'threshold':
            kw['threshold'] = thr_python(run['threshold'])
        elif run['form'] == 'quantile':
            kw['quantile'] = run['quantile']
        elif run['form'] == 'n_sim':
            kw['n_sim'] = run['n_sim']
        drive = run['drive']
        if drive == 'sample':
            return rej.sample(run['n'], bar=False, **kw)
        if drive == 'sample_bar':
            with contextlib.redirect_stdout(io.StringIO()):
                return rej.sample(run['n'], **kw)
        if drive == 'infer':
            return rej.infer(run['n'], bar=False, **kw)
        rej.set_objective(run['n'], **kw)
        while not rej.finished:
            rej.iterate()
        res = rej.extract_result()
        if run['cancel']:
            rej.batches.cancel_pending()
        return res

    def run_impl(self, case):
        import elfi
        from elfi.store import OutputPool
        m = build_model(case['cfg'])
        names = ['d'] + m.parameter_names + ['sim', 's1']
        pool = OutputPool(names)
        client = ScriptedClient(oracle=case['oracle'], mode=case['mode'], num_cores=1, seed=case['seed'])
        elfi.set_client(client)
        runs_out = []
        kept = []
        leftovers = []
        try:
            rej = elfi.Rejection(m['d'], batch_size=case['b'], seed=case['seed'], output_names=['sim', 's1'],
                                 pool=pool, max_parallel_batches=case['maxp'])
            client.handler = rej.batches
            for run in case['runs']:
                ev0 = len(client.events)
                res = self.one_run(rej, run)
                got = [e[2] for e in client.events[ev0:] if e[0] == 'get']
                if got != list(range(len(got))):
                    raise AssertionError('batches were not handed out in succession 0,1,2,...: %r' % got)
                if run['drive'] != 'iterate' or run['cancel']:
                    leftovers.append(client.leftover())
                # the independent record of this run: the batches the client handed out, as stored in the pool
                codes = {}
                table = []
                for bi in got:
                    batch = pool.get_batch(bi)
                    rows = []
                    for i in range(case['b']):
                        key = rejmodels.row_key(batch, names, i)
                        code = codes.setdefault(key, len(codes))
                        rows.append((disc_value(batch['d'][i]), code))
                    table.append(rows)
                lens = sorted({len(np.asarray(res.outputs[k])) for k in names})
                keys = [rejmodels.row_key(res.outputs, names, i) for i in range(lens[0])]
                out_rows = [(disc_value(res.outputs['d'][i]), codes.get(keys[i])) for i in range(lens[0])]
                kept.append((res, keys))
                runs_out.append(dict(table=table, rows=out_rows, threshold=disc_value(res.threshold), n_sim=int(res.n_sim),
                                     n_batches=int(res.n_batches), lens=lens,
                                     discs=[d for d, _ in out_rows]))
                if not case['keep_pool']:
                    for st in pool.stores.values():
                        if st is not None:
                            st.clear()
            rej.batches.cancel_pending()
            leftovers.append(client.leftover())
        finally:
            import elfi.clients.native as native
            elfi.set_client(native.Client())
        # results of earlier runs after the later ones
        changed = []
        for k, (res, keys) in enumerate(kept):
            now = [rejmodels.row_key(res.outputs, names, i) for i in range(len(np.asarray(res.outputs['d'])))]
            if now != keys:
                changed.append(k)
        return dict(runs=runs_out, leftover=[l for l in leftovers if l], problems=client.problems, changed=changed)

    def py_check(self, case, out):
        f = []
        if out['leftover']:
            f.append(('no_task_left', 'tasks left in the client after a finished run: %r' % out['leftover']))
        if out['problems']:
            f.append(('client_protocol', '; '.join(out['problems'][:2])))
        for k, ro in enumerate(out['runs']):
            if any(code is None for _, code in ro['rows']):
                f.append(('row_consistency', 'run %d: a returned row is not one of the draws this run consumed: %r' % (k, ro['rows'])))
            if len(ro['lens']) != 1:
                f.append(('row_consistency', 'run %d: returned outputs have different lengths %r' % (k, ro['lens'])))
        if out['changed']:
            f.append(('result_stable', 'the returned outputs of run(s) %r changed during later runs of the instance' % out['changed']))
        return f

    def nontrivial(self, case, out):
        hit = len(case['runs']) > 1
        for run, ro in zip(case['runs'], out['runs']):
            discs = [d for rows in ro['table'] for d, _ in rows]
            tie = len(ro['discs']) > 0 and discs.count(ro['discs'][-1]) > 1
            has_inf = any(d is None for d in discs)
            nondiv = run['form'] == 'n_sim' and run['n_sim'] % case['b'] != 0
            boundary = run['form'] == 'threshold' and run['threshold'] is not None and float(run['threshold']['v']) < 1
            hit = hit or tie or has_inf or nondiv or boundary
        for k, (run, ro) in enumerate(zip(case['runs'], out['runs'])):
            if any(d is None for d in ro['discs']):
                self.bump('observed:inf_draw_returned_in_%s_run' % ('first' if k == 0 else 'later'))
            if run['form'] == 'threshold' and run['threshold'] is not None and float(run['threshold']['v']) < 1:
                self.bump('observed:exact_match_run_batches_%s' % ('<=maxp' if ro['n_batches'] <= case['maxp'] else '>maxp'))
        if not hit:
            return None
        return json.dumps({k: v for k, v in case.items() if k != 'oracle'}, sort_keys=True)

    def run_to_coq(self, case, run, ro):
        if run['form'] == 'threshold':
            form = '(ByThreshold %s %s)' % (cdisc(thr_model(run['threshold'])), cnat(case['maxp']))
        elif run['form'] in ('quantile', 'default'):
            form = '(ByQuantile %s)' % cfloat(run['quantile'])
        else:
            form = '(ByNsim %s)' % cz(run['n_sim'])
        table = clist([clist(['{| d_disc := %s; d_code := %s |}' % (cdisc(d), cn(c)) for d, c in rows]) for rows in ro['table']])
        rows = clist(['None' if c is None else '(Some {| d_disc := %s; d_code := %s |})' % (cdisc(d), cn(c)) for d, c in ro['rows']])
        return ('{| c_n := %s; c_b := %s; c_form := %s; c_table := %s; c_rows := %s; c_threshold := %s; c_n_sim := %s; c_n_batches := %s |}'
                % (cnat(run['n']), cnat(case['b']), form, table, rows, cdisc(ro['threshold']), cbig(ro['n_sim']), cbig(ro['n_batches'])))

    def to_coq(self, case, out):
        runs = clist([self.run_to_coq(case, run, ro) for run, ro in zip(case['runs'], out['runs'])], sep=';\n   ')
        return '{| h_b := %s; h_runs := %s |}' % (cnat(case['b']), runs)


if __name__ == '__main__':
    sys.exit(run_check(C01))
