"""C01 — rejection ABC returns exactly the best simulated draws, row-consistent."""
import numpy as np
from common import *
import rejmodels
from sclient import ScriptedClient


def cdisc(v):
    return 'PInf' if v is None else '(Fin %s)' % cz(v)


class C01(PropCheck):
    pid = 'C01'
    header = ('From Coq Require Import List ZArith NArith Bool PrimFloat.\n'
              'From Elfi Require Import Base.Harness Sched.Sched Sched.Reject.\nImport ListNotations.\n')
    case_type = 'Reject.case'
    preds = (('Reject.agree', 'agree'), ('Reject.ok', 'ok'))
    chunk = 120
    case_timeout = 30
    build_targets = ('Sched/Reject.vo',)
    rule = ('real Rejection.sample on small models (uniform / hierarchical priors, vector simulator output, integer-valued '
            'discrepancies from 3-8 levels so that ties are forced, optional infinite discrepancies), all three objective forms '
            '(threshold | quantile | n_sim), batch sizes 1-7 not dividing budgets, n_samples <,=,> batch_size, max_parallel 1-4 under '
            'a scripted client; an OutputPool storing every requested output of every consumed batch is the independent record; '
            'non-trivial = a tie at the cut or an infinite discrepancy among the consumed draws or a budget not divisible by the '
            'batch size; distinct by full configuration')
    trusted = ('np.lexsort is a stable sort (the model uses a stable insertion sort); float arithmetic of the batch estimator is '
               'modelled bit-exactly in PrimFloat',)

    def generate(self):
        n = 220 if self.tier == 'quick' else 3500
        r = self.rng
        for i in range(n):
            b = r.choice([1, 2, 3, 4, 5, 7])
            ns = r.choice([1, 2, 3, 4, 6, 9])
            levels = r.choice([2, 3, 4, 8])
            form = r.choice(['threshold', 'quantile', 'n_sim', 'n_sim'])
            cfg = dict(two_params=r.random() < 0.4, width=r.choice([1, 2, 3]), levels=levels,
                       inf_above=(r.choice([1, 2, 3]) if r.random() < 0.4 else None))
            case = dict(cfg=cfg, b=b, n=ns, form=form, seed=r.randrange(2 ** 31), maxp=r.choice([1, 1, 2, 3, 4]),
                        mode=r.choice(['lazy', 'eager', 'shuffle']), oracle=[r.random() < 0.5 for _ in range(60)])
            if form == 'threshold':
                case['threshold'] = r.choice([1, 2, 3, 4])
                if cfg['inf_above'] is not None and r.random() < 0.2:
                    case['threshold'] = None  # python inf
            elif form == 'quantile':
                case['quantile'] = r.choice([0.5, 0.25, 0.1, 0.3, 0.2, 0.34, 1.0])
            else:
                case['n_sim'] = ns + r.randint(0, 4 * b + 3)
            self.bump('form=' + form)
            self.bump('b=%d' % b)
            self.bump('inf=%s' % (cfg['inf_above'] is not None))
            yield case

    def run_impl(self, case):
        import elfi
        from elfi.store import OutputPool
        m = rejmodels.build(case['cfg'])
        names = ['d'] + m.parameter_names + ['sim', 's1']
        pool = OutputPool(names)
        client = ScriptedClient(oracle=case['oracle'], mode=case['mode'], num_cores=1, seed=case['seed'])
        elfi.set_client(client)
        try:
            rej = elfi.Rejection(m['d'], batch_size=case['b'], seed=case['seed'], output_names=['sim', 's1'],
                                 pool=pool, max_parallel_batches=case['maxp'])
            client.handler = rej.batches
            kw = {}
            if case['form'] == 'threshold':
                kw['threshold'] = np.inf if case['threshold'] is None else float(case['threshold'])
            elif case['form'] == 'quantile':
                kw['quantile'] = case['quantile']
            else:
                kw['n_sim'] = case['n_sim']
            res = rej.sample(case['n'], bar=False, **kw)
        finally:
            import elfi.clients.native as native
            elfi.set_client(native.Client())
        # the independent record
        codes = {}
        table = []
        nb = len(pool)
        for bi in range(nb):
            batch = pool.get_batch(bi)
            rows = []
            for i in range(case['b']):
                key = rejmodels.row_key(batch, names, i)
                code = codes.setdefault(key, len(codes))
                rows.append((rejmodels.disc_value(batch['d'][i]), code))
            table.append(rows)
        out_rows = []
        for i in range(len(res.outputs['d'])):
            key = rejmodels.row_key(res.outputs, names, i)
            out_rows.append((rejmodels.disc_value(res.outputs['d'][i]), codes.get(key)))
        return dict(table=table, rows=out_rows, threshold=rejmodels.disc_value(res.threshold), n_sim=int(res.n_sim),
                    n_batches=int(res.n_batches), leftover=client.leftover(), problems=client.problems,
                    discs=[rejmodels.disc_value(x) for x in res.outputs['d']])

    def py_check(self, case, out):
        f = []
        if out['leftover']:
            f.append(('no_task_left', 'tasks left in the client: %r' % out['leftover']))
        if out['problems']:
            f.append(('client_protocol', '; '.join(out['problems'][:2])))
        if any(code is None for _, code in out['rows']):
            f.append(('row_consistency', 'a returned row is not one of the consumed draws: %r' % out['rows']))
        return f

    def nontrivial(self, case, out):
        discs = [d for rows in out['table'] for d, _ in rows]
        tie = len(out['discs']) > 0 and discs.count(out['discs'][-1]) > 1
        has_inf = any(d is None for d in discs)
        nondiv = case['form'] == 'n_sim' and case['n_sim'] % case['b'] != 0
        if not (tie or has_inf or nondiv):
            return None
        return json.dumps({k: v for k, v in case.items() if k != 'oracle'}, sort_keys=True)

    def to_coq(self, case, out):
        if case['form'] == 'threshold':
            form = '(ByThreshold %s %s)' % (cdisc(case['threshold']), cnat(case['maxp']))
        elif case['form'] == 'quantile':
            form = '(ByQuantile %s)' % cfloat(case['quantile'])
        else:
            form = '(ByNsim %s)' % cz(case['n_sim'])
        table = clist([clist(['{| d_disc := %s; d_code := %s |}' % (cdisc(d), cn(c)) for d, c in rows]) for rows in out['table']])
        rows = clist(['None' if c is None else '(Some {| d_disc := %s; d_code := %s |})' % (cdisc(d), cn(c)) for d, c in out['rows']])
        return ('{| c_n := %s; c_b := %s; c_form := %s; c_table := %s; c_rows := %s; c_threshold := %s; c_n_sim := %s; c_n_batches := %s |}'
                % (cnat(case['n']), cnat(case['b']), form, table, rows, cdisc(out['threshold']), cnat(out['n_sim']), cnat(out['n_batches'])))


if __name__ == '__main__':
    sys.exit(run_check(C01))
