"""C06 — on-disk array stores (NpyArray / NpyStore): correspondence with coq/Store/Npy.v.

Every case is one history of store operations.  It is run on the real code
  * once "observing" (after every operation: did it raise, len(store), store[0..len), and after
    flush-like operations numpy.load of the file),
  * once "plain" with the file object NpyArray opens wrapped by an interposer that logs every
    open/seek/write/truncate/flush/close (and the memmap writes at NpyArray.__setitem__),
  * and once per crash point k: a forked child whose interposer calls os._exit(0) on entering
    counted file operation number k; the parent numpy.load()s what is left behind.
The Coq side replays the history in the model (`agree`: same low-level operations, same reports,
same file content at every crash point under CPython's buffering) and evaluates the property on the
implementation's outputs (`ok`: reports = in-memory list of batches; every crash after a flush
loads to the content after one of the operations between that flush and the kill)."""
import ast
import pickle
import struct

import numpy as np
from common import *

DTYPES = ['<f8', '<i4', '|b1']
SHAPES = [(), (3,), (2, 2)]


# ----------------------------------------------------------------------------------------------
# interposer (lives in the forked child)
# ----------------------------------------------------------------------------------------------

class _Ctx:
    def __init__(self, kill_at, dtype, rowshape):
        self.kill_at = kill_at
        self.count = 0
        self.log = []
        self.dtype = np.dtype(dtype)
        self.rowshape = tuple(rowshape)
        self.rowbytes = int(self.dtype.itemsize * int(np.prod(self.rowshape, dtype=int)))
        self.hl = None

    def tick(self):
        if self.kill_at is not None and self.count == self.kill_at:
            os._exit(0)
        self.count += 1


def cells(arr):
    """rows of an array as lists of integers (raw little-endian bytes of each item)"""
    arr = np.asarray(arr)
    n = len(arr)
    if n == 0:
        return []
    flat = np.ascontiguousarray(arr).reshape(n, -1)
    isz = flat.dtype.itemsize
    out = []
    for r in flat:
        b = r.tobytes()
        out.append([int.from_bytes(b[j:j + isz], 'little') for j in range(0, len(b), isz)])
    return out


class _Proxy:
    def __init__(self, f, ctx):
        object.__setattr__(self, '_f', f)
        object.__setattr__(self, '_c', ctx)

    def __getattr__(self, n):
        return getattr(self._f, n)

    def seek(self, pos, whence=0):
        if self._f.closed:
            return self._f.seek(pos, whence)
        self._c.tick()
        r = self._f.seek(pos, whence)
        self._c.log.append(['seekend'] if whence == 2 else ['seek'])
        return r

    def write(self, b):
        if self._f.closed:
            return self._f.write(b)
        c = self._c
        c.tick()
        p = self._f.tell()
        r = self._f.write(b)
        b = bytes(b)
        if p == 0 and len(b) == 12:
            c.hl = 12 + struct.unpack('<I', b[8:12])[0]
            c.log.append(['prefix'])
        elif p == 12 and c.hl is not None and len(b) == c.hl - 12:
            d = ast.literal_eval(b.decode('latin1').strip())
            ok = (np.dtype(d['descr']) == c.dtype and d['fortran_order'] is False and tuple(d['shape'][1:]) == c.rowshape)
            c.log.append(['header', int(d['shape'][0])] if ok else ['badheader', repr(d)])
        elif c.hl is not None and p >= c.hl and (p - c.hl) % c.rowbytes == 0 and len(b) % c.rowbytes == 0:
            arr = np.frombuffer(b, dtype=c.dtype).reshape((-1,) + c.rowshape)
            c.log.append(['data', (p - c.hl) // c.rowbytes, cells(arr)])
        else:
            c.log.append(['rawwrite', p, len(b)])
        return r

    def truncate(self, *a):
        if self._f.closed:
            return self._f.truncate(*a)
        c = self._c
        c.tick()
        p = self._f.tell() if not a else a[0]
        r = self._f.truncate(*a)
        if c.hl is not None and p >= c.hl and (p - c.hl) % c.rowbytes == 0:
            c.log.append(['truncate', (p - c.hl) // c.rowbytes])
        else:
            c.log.append(['rawtruncate', p])
        return r

    def flush(self):
        if self._f.closed:
            return self._f.flush()
        self._c.tick()
        r = self._f.flush()
        self._c.log.append(['flush'])
        return r

    def close(self):
        if self._f.closed:
            return self._f.close()
        self._c.tick()
        r = self._f.close()
        self._c.log.append(['close'])
        return r


def make_batch(case, vals, kind='ok'):
    dt = np.dtype(case['dtype'])
    shape = (len(vals),) + tuple(case['rowshape'])
    w = int(np.prod(case['rowshape'], dtype=int))
    a = np.array([[v * 8 + j for j in range(w)] for v in vals])
    if dt.kind == 'b':
        a = (a * 2654435761 >> 7) % 2 == 1
    elif dt.kind == 'f':
        a = a + 0.25
    a = a.astype(dt).reshape(shape)
    if kind == 'badshape':
        a = np.zeros((len(vals),) + tuple(case['rowshape']) + (2,), dtype=dt)
    elif kind == 'baddtype':
        a = a.astype('<i8' if dt.kind != 'i' else '<f4')
    return a


def run_history(case, kill_at, observe, fname):
    """Runs in a forked child.  Returns (per-op logs, per-op observations)."""
    import elfi.store as st
    ctx = _Ctx(kill_at, case['dtype'], case['rowshape'])
    if hasattr(st, 'open') and st.open is not open:
        raise RuntimeError('elfi.store.open already patched')

    def popen(name, mode='r', *a, **k):
        ctx.tick()
        f = open(name, mode, *a, **k)
        ctx.hl_file = name
        ctx.log.append(['open', 'w' in mode])
        return _Proxy(f, ctx)
    st.open = popen
    orig_setitem = st.NpyArray.__setitem__

    def setitem(self, sl, value):
        r = orig_setitem(self, sl, value)
        ctx.log.append(['mem', int(sl.start), cells(np.asarray(value))])
        return r
    st.NpyArray.__setitem__ = setitem

    bs = case['bs']
    logs, obs = [], []
    store = st.NpyStore(fname, bs)
    logs.append(ctx.log)
    ctx.log = []
    for op in case['ops']:
        err = False
        try:
            k = op[0]
            if k == 'set':
                store[op[1]] = make_batch(case, op[3], op[2])
            elif k == 'del':
                del store[op[1]]
            elif k == 'clear':
                store.clear()
            elif k == 'flush':
                store.flush()
            elif k == 'close':
                store.close()
            elif k == 'reopen':
                store.close()
                store = st.NpyStore(fname, bs)
            elif k == 'pickle':
                store = pickle.loads(pickle.dumps(store))
            elif k == 'read':
                np.array(store[op[1]])
            else:
                raise RuntimeError('unknown op %r' % (op,))
        except (IndexError, ValueError, OverflowError, FileNotFoundError):
            err = True
        if observe:
            o = dict(err=err, len=len(store), load=None)
            if op[0] in ('flush', 'close', 'reopen', 'pickle') and store.array.header_length is not None:
                try:
                    o['load'] = [cells(np.load(fname + '.npy'))]
                except Exception as e:
                    o['load'] = [None]
            try:
                o['batches'] = [cells(np.array(store[i])) for i in range(len(store))]
            except (IndexError, ValueError):
                o['batches'] = None
            obs.append(o)
        logs.append(ctx.log)
        ctx.log = []
    _KEEP.append(store)      # no finaliser may run: the process ends by os._exit with the store open
    return logs, obs


_KEEP = []


def in_child(fn):
    r, w = os.pipe()
    pid = os.fork()
    if pid == 0:
        try:
            os.close(r)
            try:
                res = ('ok', fn())
            except BaseException as e:  # noqa
                res = ('exc', '%s: %s\n%s' % (type(e).__name__, e, traceback.format_exc()[-1500:]))
            with os.fdopen(w, 'wb') as f:
                pickle.dump(res, f)
        finally:
            os._exit(0)
    os.close(w)
    with os.fdopen(r, 'rb') as f:
        data = f.read()
    os.waitpid(pid, 0)
    if not data:
        raise RuntimeError('child died without a result')
    tag, val = pickle.loads(data)
    if tag == 'exc':
        raise RuntimeError('child raised ' + val)
    return val


def crash_child(case, k, fname):
    pid = os.fork()
    if pid == 0:
        try:
            run_history(case, k, False, fname)
        finally:
            os._exit(0)
    os.waitpid(pid, 0)


def load_cells(path):
    try:
        a = np.load(path)
    except Exception:
        return None
    return cells(a)


# ----------------------------------------------------------------------------------------------
# Coq printers
# ----------------------------------------------------------------------------------------------

def c_rows(rows):
    return clist([clist([cn(x) for x in r]) for r in rows])


def c_lop(e):
    k = e[0]
    if k == 'open':
        return 'LOpen %s' % cbool(e[1])
    if k == 'seek':
        return 'LSeek'
    if k == 'seekend':
        return 'LSeekEnd'
    if k == 'prefix':
        return 'LWritePrefix'
    if k == 'header':
        return 'LWriteHeader %d' % e[1]
    if k == 'data':
        return 'LWriteData %d %s' % (e[1], c_rows(e[2]))
    if k == 'truncate':
        return 'LTruncate %d' % e[1]
    if k == 'flush':
        return 'LFlush'
    if k == 'close':
        return 'LClose'
    if k == 'mem':
        return 'LMemWrite %d %s' % (e[1], c_rows(e[2]))
    return None


def c_hop(case, op):
    k = op[0]
    if k == 'set':
        return 'Set_ %d %s %s' % (op[1], cbool(op[2] == 'ok'), c_rows(cells(make_batch(case, op[3]))))
    if k == 'del':
        return 'Del %d' % op[1]
    if k == 'read':
        return 'Read %d' % op[1]
    return {'clear': 'Clear', 'flush': 'Flush', 'close': 'Close', 'reopen': 'Reopen', 'pickle': 'Pickle'}[k]


class C06(PropCheck):
    pid = 'C06'
    header = ('From Coq Require Import List NArith Arith Bool.\nFrom Elfi Require Import Base.Harness Store.Npy.\n'
              'Import ListNotations.\nOpen Scope nat_scope.\n')
    case_type = 'Npy.case'
    preds = (('Npy.agree', 'agree'), ('Npy.ok', 'ok'))
    chunk = 8
    rule = ('histories of NpyStore operations (append/overwrite/delete-last/clear/flush/close+reopen/pickle+unpickle/read, '
            'plus a malformed stream: index past the end, deleting a middle batch, wrong row shape/dtype, operations on a closed '
            'store) over dtypes <f8 <i4 |b1, row shapes () (3,) (2,2), batch sizes 1-4, each replayed with a kill at every counted '
            'file operation; non-trivial = history with a flush-like operation followed by at least one content-changing operation '
            'and at least 10 crash points; distinct by (dtype,row shape,batch size,operations)')
    trusted = ('the file-operation interposer of harness/c06.py (proxy around the file object NpyArray opens; os._exit at a counted operation); '
               'kill = os._exit: user-space buffers are lost, the page cache (including memmap writes) survives; power loss / filesystem reordering not modelled',
               'numpy.load as the reader of the file left behind')

    # -- generation ----------------------------------------------------------------------------
    def gen_history(self, malformed):
        r = self.rng
        case = dict(dtype=r.choice(DTYPES), rowshape=list(r.choice(SHAPES)), bs=r.randint(1, 4), ops=[])
        n = r.randint(4, 11)
        nb = 0          # expected number of batches
        nxt = [1]
        closed = False
        inited = False

        def vals():
            v = list(range(nxt[0], nxt[0] + case['bs']))
            nxt[0] += case['bs']
            return v
        ops = case['ops']
        if r.random() < 0.15:      # something before initialisation
            ops.append([r.choice(['flush', 'clear', 'close', 'del'])] if True else None)
            if ops[-1][0] == 'del':
                ops[-1] = ['del', 0]
        ops.append(['set', 0, 'ok', vals()])
        nb, inited = 1, True
        weights = [('append', 30), ('over', 16), ('del', 12), ('clear', 4), ('flush', 12), ('reopen', 8), ('pickle', 7), ('read', 6)]
        if malformed:
            weights += [('bad', 18), ('close', 5)]
        names = [w[0] for w in weights]
        ws = [w[1] for w in weights]
        while len(ops) < n:
            k = r.choices(names, ws)[0]
            if k == 'append':
                ops.append(['set', nb, 'ok', vals()])
                if not closed:
                    nb += 1
            elif k == 'over':
                if nb == 0:
                    continue
                ops.append(['set', r.randrange(nb), 'ok', vals()])
            elif k == 'del':
                if nb == 0:
                    continue
                ops.append(['del', nb - 1])
                nb -= 1
            elif k == 'clear':
                ops.append(['clear'])
                if not closed:
                    nb = 0
            elif k in ('flush', 'pickle'):
                ops.append([k])
                if k == 'pickle':
                    closed = False
            elif k == 'reopen':
                ops.append(['reopen'])
                closed = False
            elif k == 'read':
                if nb == 0:
                    continue
                ops.append(['read', r.randrange(nb)])
            elif k == 'close':
                ops.append(['close'])
                closed = True
            elif k == 'bad':
                b = r.choice(['far', 'delmid', 'delpast', 'shape', 'dtype'])
                if b == 'far':
                    ops.append(['set', nb + r.randint(1, 2), 'ok', vals()])
                elif b == 'delmid':
                    if nb < 2:
                        continue
                    ops.append(['del', r.randrange(nb - 1)])
                elif b == 'delpast':
                    ops.append(['del', nb + r.randint(0, 1)])
                elif b == 'shape':
                    ops.append(['set', nb, 'badshape', vals()])
                else:
                    ops.append(['set', nb, 'baddtype', vals()])
            self.bump('op=' + k)
        if r.random() < 0.3 and not closed:
            ops.append(['close'])
        return case

    def generate(self):
        n = 60 if self.tier == 'quick' else 700
        # (the two defect histories found while building this check live in corpus/C06 and run first)
        A, B, X = [1, 2], [3, 4], [5, 6]
        base = dict(dtype='<f8', rowshape=[3], bs=2)
        yield dict(base, ops=[['set', 0, 'ok', A], ['set', 1, 'ok', B], ['reopen'], ['clear'], ['set', 0, 'ok', X], ['pickle'], ['set', 0, 'ok', B]])
        for i in range(n):
            malformed = (i % 5 == 4)
            case = self.gen_history(malformed)
            self.bump('stream=' + ('malformed' if malformed else 'valid'))
            self.bump('dtype=' + case['dtype'])
            self.bump('rowshape=' + str(tuple(case['rowshape'])))
            self.bump('bs=%d' % case['bs'])
            yield case

    # -- implementation ------------------------------------------------------------------------
    _ctr = 0

    def fresh_name(self):
        C06._ctr += 1
        d = os.path.join(WORK, 'C06', 'files')
        os.makedirs(d, exist_ok=True)
        return os.path.join(d, 'a%d' % C06._ctr)

    def run_impl(self, case):
        import elfi.store  # noqa: imported once in the parent, the forked children only patch their copy
        f1 = self.fresh_name()
        logs_obs, obs = in_child(lambda: run_history(case, None, True, f1))
        os.path.exists(f1 + '.npy') and os.remove(f1 + '.npy')
        f2 = self.fresh_name()
        logs, _ = in_child(lambda: run_history(case, None, False, f2))
        final = load_cells(f2 + '.npy')
        os.path.exists(f2 + '.npy') and os.remove(f2 + '.npy')
        total = sum(1 for l in logs for e in l if e[0] != 'mem')
        crash = []
        for k in range(total + 1):
            f3 = self.fresh_name()
            crash_child(case, k, f3)
            crash.append([k, load_cells(f3 + '.npy')])
            os.path.exists(f3 + '.npy') and os.remove(f3 + '.npy')
        self.bump('crash_points', total + 1)
        return dict(logs=logs, logs_obs=logs_obs, obs=obs, crash=crash, final=final)

    def py_check(self, case, out):
        bad = [e for l in out['logs'] + out['logs_obs'] for e in l if c_lop(e) is None]
        if bad:
            return [('file_ops_recognised', 'the store issued a file operation outside the modelled repertoire: %r' % (bad[:3],))]
        if out['crash'][-1][1] != out['final']:
            return [('deterministic_replay', 'the crash-free replay left a different file than the plain run')]
        return []

    def nontrivial(self, case, out):
        ops = case['ops']
        fl = [i for i, o in enumerate(ops) if o[0] in ('flush', 'reopen', 'pickle')]
        if not fl or len(out['crash']) < 10:
            return None
        if not any(o[0] in ('set', 'del', 'clear') for o in ops[fl[0] + 1:]):
            return None
        return json.dumps(case, sort_keys=True)

    def to_coq(self, case, out):
        if any(c_lop(e) is None for l in out['logs'] + out['logs_obs'] for e in l):
            return None
        logs, logs_obs = out['logs'], out['logs_obs']
        if logs[0] != [['open', True]] or logs_obs[0] != [['open', True]]:
            return None
        tr = clist([clist([c_lop(e) for e in l]) for l in logs[1:]], sep=';\n     ')
        tro = clist([clist([c_lop(e) for e in l]) for l in logs_obs[1:]], sep=';\n     ')
        oracle = [999 if e[0] == 'seek' else 0 for l in logs for e in l]
        obs = []
        for o in out['obs']:
            ld = 'None' if o['load'] is None else '(Some %s)' % copt(o['load'][0], c_rows)
            bt = 'None' if o['batches'] is None else '(Some %s)' % clist([c_rows(b) for b in o['batches']])
            obs.append('{| o_err := %s; o_len := %d; o_batches := %s; o_load := %s |}' % (cbool(o['err']), o['len'], bt, ld))
        crash = clist(['(%d, %s)' % (k, copt(c, c_rows)) for k, c in out['crash']], sep=';\n     ')
        return ('{| c_variant := current; c_bs := %d;\n   c_ops := %s;\n   c_trace := %s;\n   c_obs := %s;\n   c_trace_obs := %s;\n'
                '   c_oracle := %s;\n   c_crash := %s |}'
                % (case['bs'], clist([c_hop(case, op) for op in case['ops']], sep=';\n     '), tr,
                   clist(obs, sep=';\n     '), tro, clist([str(x) for x in oracle]), crash))


if __name__ == '__main__':
    sys.exit(run_check(C06))
