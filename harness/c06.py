"""C06 — on-disk array stores (NpyArray / NpyStore): correspondence with coq/Store/Npy.v.

Every case is one history of store operations.  It is run on the real code
  * once "observing" (after every operation: did it raise, len(store), store[0..len), and after
    flush-like operations numpy.load of the file),
  * once "plain" with the file object NpyArray opens wrapped by an interposer that logs every
    open/seek/write/truncate/flush/close, and elfi.store's numpy.memmap replaced by a subclass that logs
    every store through the mapping,
  * and once per crash point k: a forked child whose interposer calls os._exit(0) on entering
    low-level operation number k (file-object calls AND writes through the memmap are numbered; k =
    total is the kill at the end of the history, store still open, nothing flushed); Python's
    buffers die with the child, what the OS already has (page cache, memmap stores included) stays:
    the parent numpy.load()s what is left behind.
Queries (store[i], scans over all batches, len(store), i in store, len(store.array)) are operations
of a history like the others and are generated anywhere, in particular between an append and an
overwrite: a read creates the memmap, and from then on overwrites reach the file without any
file-object call in between.
The Coq side replays the history in the model (`agree`: same low-level operations, same reports,
same file content at every crash point under CPython's buffering) and evaluates the property on the
implementation's outputs (`ok`: reports = in-memory list of batches; every crash after a flush
loads to the content after one of the operations between that flush and the kill).

Prefix stores (a store whose n_batches is smaller than the number of batches in the file) are
covered twice: histories with an `open` operation (NpyStore(filename, bs, n_batches=k)) go through
the Coq model like all others (`Open k`, specification state = (batches in the file, n_batches));
a second stream (case kind 'prefix', clause `prefix_store_write`) is python-side only and also
takes the pickle / original-object-grows / unpickle route, comparing with a plain list of batches.

Memory layouts: the batch of every `set` operation is handed to the store in one of the layouts of
LAYOUTS (C order, Fortran order, transposed / permuted views, every second element of a wider
buffer, negative strides, a window at an offset, a broadcast row, overlapping sliding windows ...,
optionally read-only; an overwrite may also come in the opposite byte order).  The Coq case carries
the array as Store/Layout.v sees it (shape, strides and offset in elements, the buffer as element
codes, all read off the numpy array that is actually passed); `Npy.lower` turns it into the logical
content, which is what the model writes and what the specification holds, so trace, reports,
numpy.load after flush and every crash point are compared with the element (i,j,...) of what was
handed in.  Python-side clause `caller_batch_untouched`: the store does not modify the array it
is given (buffer bytes, shape, strides, flags)."""
import ast
import pickle
import random
import struct

import numpy as np
from common import *

DTYPES = ['<f8', '<i4', '|b1', '>f8', '>i4', '<u2', '<c16']
SHAPES = [(), (3,), (2, 2), (2, 3)]
# memory layouts of the batch handed to the store (see apply_layout) and their weights
LAYOUTS = [('C', 20), ('F', 14), ('T', 14), ('perm', 7), ('roll', 7), ('step0', 6), ('steplast', 6), ('Fstep', 6),
           ('neg', 6), ('neg0', 4), ('neglast', 4), ('off', 6), ('bcast', 3), ('overlap', 3)]


# ----------------------------------------------------------------------------------------------
# interposer (lives in the forked child)
# ----------------------------------------------------------------------------------------------

class _Ctx:
    def __init__(self, kill_at, dtype, rowshape):
        self.kill_at = kill_at
        self.count = 0
        self.log = []
        self.dtype = np.dtype(dtype)
        self.rowshape = tuple(rowshape)
        self.rowbytes = int(self.dtype.itemsize * int(np.prod(self.rowshape, dtype=int)))
        self.hl = None

    def tick(self):
        if self.kill_at is not None and self.count == self.kill_at:
            os._exit(0)
        self.count += 1


def cells(arr):
    """rows of an array as lists of integers (raw little-endian bytes of each item)"""
    arr = np.asarray(arr)
    n = len(arr)
    if n == 0:
        return []
    flat = np.ascontiguousarray(arr).reshape(n, -1)
    isz = flat.dtype.itemsize
    out = []
    for r in flat:
        b = r.tobytes()
        out.append([int.from_bytes(b[j:j + isz], 'little') for j in range(0, len(b), isz)])
    return out


class _Proxy:
    def __init__(self, f, ctx):
        object.__setattr__(self, '_f', f)
        object.__setattr__(self, '_c', ctx)

    def __getattr__(self, n):
        return getattr(self._f, n)

    def seek(self, pos, whence=0):
        if self._f.closed:
            return self._f.seek(pos, whence)
        self._c.tick()
        r = self._f.seek(pos, whence)
        self._c.log.append(['seekend'] if whence == 2 else ['seek'])
        return r

    def write(self, b):
        if self._f.closed:
            return self._f.write(b)
        c = self._c
        c.tick()
        p = self._f.tell()
        r = self._f.write(b)
        b = bytes(b)
        if p == 0 and len(b) == 12:
            c.hl = 12 + struct.unpack('<I', b[8:12])[0]
            c.log.append(['prefix'])
        elif p == 12 and c.hl is not None and len(b) == c.hl - 12:
            d = ast.literal_eval(b.decode('latin1').strip())
            ok = (np.dtype(d['descr']) == c.dtype and d['fortran_order'] is False and tuple(d['shape'][1:]) == c.rowshape)
            c.log.append(['header', int(d['shape'][0])] if ok else ['badheader', repr(d)])
        elif c.hl is not None and p >= c.hl and (p - c.hl) % c.rowbytes == 0 and len(b) % c.rowbytes == 0:
            arr = np.frombuffer(b, dtype=c.dtype).reshape((-1,) + c.rowshape)
            c.log.append(['data', (p - c.hl) // c.rowbytes, cells(arr)])
        else:
            c.log.append(['rawwrite', p, len(b)])
        return r

    def truncate(self, *a):
        if self._f.closed:
            return self._f.truncate(*a)
        c = self._c
        c.tick()
        p = self._f.tell() if not a else a[0]
        r = self._f.truncate(*a)
        if c.hl is not None and p >= c.hl and (p - c.hl) % c.rowbytes == 0:
            c.log.append(['truncate', (p - c.hl) // c.rowbytes])
        else:
            c.log.append(['rawtruncate', p])
        return r

    def flush(self):
        if self._f.closed:
            return self._f.flush()
        self._c.tick()
        r = self._f.flush()
        self._c.log.append(['flush'])
        return r

    def close(self):
        if self._f.closed:
            return self._f.close()
        self._c.tick()
        r = self._f.close()
        self._c.log.append(['close'])
        return r


class _KMemmap(np.memmap):
    """The mapping NpyArray gets in the child: a store through it is a numbered low-level operation
    (kill point on entering it) and is logged like the file-object calls."""
    _ctx = None

    def __setitem__(self, key, value):
        c = _KMemmap._ctx
        if c is None:
            return np.memmap.__setitem__(self, key, value)
        c.tick()
        try:
            np.memmap.__setitem__(self, key, value)
        except BaseException:
            c.count -= 1          # nothing was stored: not an operation
            raise
        if isinstance(key, slice) and key.step in (None, 1) and isinstance(key.start, (int, np.integer)):
            # what the mapping holds at the slice after the store (not what was handed in)
            c.log.append(['mem', int(key.start), cells(np.array(np.ndarray.__getitem__(self, key)))])
        else:
            c.log.append(['rawmem', repr(key)])


class _NpProxy:
    """`np` as elfi.store sees it in the child: numpy with `memmap` replaced by _KMemmap."""
    def __init__(self, real):
        object.__setattr__(self, '_real', real)
        object.__setattr__(self, 'memmap', _KMemmap)

    def __getattr__(self, n):
        return getattr(self._real, n)


def byte_bounds(arr):
    f = getattr(getattr(np.lib, 'array_utils', None), 'byte_bounds', None) or np.byte_bounds
    return f(arr)


def filler(a, shape):
    """values of `a` in another order, to fill the parts of a wider buffer the batch does not cover"""
    return np.resize(np.flip(a).ravel(), shape).astype(a.dtype)


def apply_layout(a, lay):
    """An array with the logical content of `a` (except 'bcast'/'overlap', whose content is a
    function of `a`) in the memory layout `lay`."""
    a = np.ascontiguousarray(a)
    nd = a.ndim
    full = (slice(None),) * nd
    if lay == 'C':
        return a.copy()
    if lay == 'F':                       # Fortran order, owning its data (np.asfortranarray(batch))
        return np.asfortranarray(a).copy(order='F')
    if lay == 'T':                       # transposed view of a C array (simulator(...).T, np.vstack(cols).T)
        return np.ascontiguousarray(a.T).T
    if lay in ('perm', 'roll'):          # axes permuted in memory: neither C nor F contiguous for 3 and more axes
        axes = list(range(nd))
        if lay == 'perm' and nd >= 2:
            axes[-1], axes[-2] = axes[-2], axes[-1]
        elif lay == 'roll':
            axes = axes[1:] + axes[:1]
        inv = [axes.index(i) for i in range(nd)]
        return np.ascontiguousarray(a.transpose(axes)).transpose(inv)
    if lay in ('step0', 'steplast', 'Fstep'):      # every second element of a wider buffer along one axis
        ax = nd - 1 if lay == 'steplast' else 0
        shape = list(a.shape)
        shape[ax] = 2 * shape[ax] + 1
        big = filler(a, shape)
        if lay == 'Fstep':
            big = np.asfortranarray(big).copy(order='F')
        sl = full[:ax] + (slice(1, None, 2),) + full[ax + 1:]
        big[sl] = a
        return big[sl]
    if lay in ('neg', 'neg0', 'neglast'):          # negative strides
        rev = {'neg': (slice(None, None, -1),) * nd, 'neg0': (slice(None, None, -1),) + full[1:],
               'neglast': full[:-1] + (slice(None, None, -1),)}[lay]
        return np.ascontiguousarray(a[rev])[rev]
    if lay == 'off':                     # a window into a larger buffer
        big = filler(a, [n + 2 for n in a.shape])
        sl = (slice(1, -1),) * nd
        big[sl] = a
        return big[sl]
    if lay == 'bcast':                   # one row broadcast to all rows (stride 0, read-only)
        return np.broadcast_to(a[:1].copy(), a.shape)
    if lay == 'overlap':                 # overlapping sliding windows over a 1-d buffer (all strides = 1 element)
        buf = np.resize(a.ravel(), int(sum(n - 1 for n in a.shape)) + 1).astype(a.dtype)
        return np.lib.stride_tricks.as_strided(buf, shape=a.shape, strides=(a.itemsize,) * nd, writeable=False)
    raise RuntimeError('unknown layout %r' % (lay,))


def op_layout(op):
    return op[4] if len(op) > 4 else {'lay': 'C', 'ro': False}


def make_batch(case, vals, kind='ok', layout=None):
    """The array handed to the store for a `set` operation: deterministic in its arguments (the child
    processes and the parent, which describes the array to Coq, build it independently)."""
    dt = np.dtype(case['dtype'])
    shape = (len(vals),) + tuple(case['rowshape'])
    w = int(np.prod(case['rowshape'], dtype=int))
    a = np.array([[v * 8 + j for j in range(w)] for v in vals])
    if dt.kind == 'b':
        a = (a * 2654435761 >> 7) % 2 == 1
    elif dt.kind == 'f':
        a = a + 0.25
    elif dt.kind == 'c':
        a = a + 0.25 + 1j * (a + 0.5)
    a = a.astype(dt).reshape(shape)
    if kind == 'badshape':
        a = np.zeros((len(vals),) + tuple(case['rowshape']) + (2,), dtype=dt)
    elif kind == 'baddtype':
        a = a.astype('<i8' if dt.kind != 'i' else '<f4')
    elif kind == 'swap':                 # same values, opposite byte order
        a = a.astype(dt.newbyteorder())
    if layout is not None and kind in ('ok', 'swap'):
        a = apply_layout(a, layout['lay'])
        if layout.get('ro'):
            a.flags.writeable = False
    return a


def snapshot(x):
    """everything a store could change about the array it is handed"""
    import ctypes
    lo, hi = byte_bounds(x)
    return (x.shape, x.strides, x.dtype.str, bool(x.flags.writeable), ctypes.string_at(lo, hi - lo))


def nd_of(x, store_dtype):
    """The array as coq/Store/Layout.v sees it: shape, strides and offset in elements, and the buffer
    it is a window into as element codes = the integer of each element's bytes in the store's dtype
    (an array of the opposite byte order is described by the same geometry over the value-preserving
    conversion of its buffer)."""
    import ctypes
    isz = x.itemsize
    lo, hi = byte_bounds(x)
    ptr = x.__array_interface__['data'][0]
    assert all(st % isz == 0 for st in x.strides) and (ptr - lo) % isz == 0 and (hi - lo) % isz == 0
    buf = np.frombuffer(ctypes.string_at(lo, hi - lo), dtype=x.dtype)
    sd = np.dtype(store_dtype)
    if buf.dtype != sd:
        assert buf.dtype == sd.newbyteorder()
        buf = buf.astype(sd)
    raw = buf.tobytes()
    codes = [int.from_bytes(raw[k:k + isz], 'little') for k in range(0, len(raw), isz)]
    return ('{| nd_shape := %s; nd_strides := %s; nd_offset := %s; nd_buf := %s |}'
            % (clist([cnat(n) for n in x.shape]), clist([cz(st // isz) for st in x.strides]), cz((ptr - lo) // isz),
               clist([cz(c) for c in codes])))


def run_history(case, kill_at, observe, fname):
    """Runs in a forked child.  Returns (per-op logs, per-op observations)."""
    import elfi.store as st
    ctx = _Ctx(kill_at, case['dtype'], case['rowshape'])
    if hasattr(st, 'open') and st.open is not open:
        raise RuntimeError('elfi.store.open already patched')

    def popen(name, mode='r', *a, **k):
        ctx.tick()
        f = open(name, mode, *a, **k)
        ctx.hl_file = name
        ctx.log.append(['open', 'w' in mode])
        return _Proxy(f, ctx)
    st.open = popen
    if isinstance(st.np, _NpProxy):
        raise RuntimeError('elfi.store.np already patched')
    _KMemmap._ctx = ctx
    st.np = _NpProxy(st.np)

    bs = case['bs']
    logs, obs = [], []
    store = st.NpyStore(fname, bs)
    logs.append(ctx.log)
    ctx.log = []
    for op in case['ops']:
        err = False
        touched = False
        try:
            k = op[0]
            if k == 'set':
                x = make_batch(case, op[3], op[2], op_layout(op))
                before = snapshot(x) if observe else None
                try:
                    store[op[1]] = x
                finally:
                    touched = observe and snapshot(x) != before
            elif k == 'del':
                del store[op[1]]
            elif k == 'clear':
                store.clear()
            elif k == 'flush':
                store.flush()
            elif k == 'close':
                store.close()
            elif k == 'reopen':
                store.close()
                store = st.NpyStore(fname, bs)
            elif k == 'pickle':
                store = pickle.loads(pickle.dumps(store))
            elif k == 'open':          # a store exposing the first op[1] batches of the file (documented argument)
                store.close()
                store = st.NpyStore(fname, bs, n_batches=op[1])
            elif k == 'read':
                np.array(store[op[1]])
            elif k == 'query':         # no file operation, no change of the object
                if op[1] == 'len':
                    len(store)
                elif op[1] == 'contains':
                    op[2] in store
                elif op[1] == 'arraylen':
                    len(store.array)
                else:
                    raise RuntimeError('unknown query %r' % (op,))
            else:
                raise RuntimeError('unknown op %r' % (op,))
        except (IndexError, ValueError, OverflowError, FileNotFoundError):
            err = True
        if observe:
            o = dict(err=err, len=len(store), load=None, touched=bool(touched))
            if op[0] in ('flush', 'close', 'reopen', 'pickle', 'open') and store.array.header_length is not None:
                try:
                    o['load'] = [cells(np.load(fname + '.npy'))]
                except Exception as e:
                    o['load'] = [None]
            try:
                o['batches'] = [cells(np.array(store[i])) for i in range(len(store))]
            except (IndexError, ValueError):
                o['batches'] = None
            obs.append(o)
        logs.append(ctx.log)
        ctx.log = []
    _KEEP.append(store)      # no finaliser may run: the process ends by os._exit with the store open
    return logs, obs


_KEEP = []


def in_child(fn):
    r, w = os.pipe()
    pid = os.fork()
    if pid == 0:
        try:
            os.close(r)
            try:
                res = ('ok', fn())
            except BaseException as e:  # noqa
                res = ('exc', '%s: %s\n%s' % (type(e).__name__, e, traceback.format_exc()[-1500:]))
            with os.fdopen(w, 'wb') as f:
                pickle.dump(res, f)
        finally:
            os._exit(0)
    os.close(w)
    with os.fdopen(r, 'rb') as f:
        data = f.read()
    os.waitpid(pid, 0)
    if not data:
        raise RuntimeError('child died without a result')
    tag, val = pickle.loads(data)
    if tag == 'exc':
        raise RuntimeError('child raised ' + val)
    return val


def crash_child(case, k, fname):
    pid = os.fork()
    if pid == 0:
        try:
            run_history(case, k, False, fname)
        finally:
            os._exit(0)
    os.waitpid(pid, 0)


def load_cells(path):
    try:
        a = np.load(path)
    except Exception:
        return None
    return cells(a)


# ----------------------------------------------------------------------------------------------
# prefix stores: a store whose n_batches is smaller than the number of batches in the file
# (python-side differential stream, clause `prefix_store_write`; no Coq side)
# ----------------------------------------------------------------------------------------------

def run_prefix(case, fname):
    """Runs in a forked child.  Builds a file with len(case['init']) batches through an ordinary
    store A, obtains a store B over the same file that exposes only the first case['k'] batches
    (variant 'nbatches_arg': NpyStore(file_or_array, batch_size, n_batches=k); variant
    'pickle_grow': B is unpickled from a pickle of A taken when A had k batches, A having appended
    the rest and flushed in the meantime), then applies case['ops'] to B.  Returns the observations:
    entry 0 = right after B exists, entry t = after operation t."""
    import elfi.store as st
    bs, k, init = case['bs'], case['k'], case['init']
    A = st.NpyStore(fname, bs)
    if case['variant'] == 'nbatches_arg':
        for i, v in enumerate(init):
            A[i] = make_batch(case, v, 'ok', init_layout(case, i))
        A.close() if case['orig'] == 'close' else A.flush()
        target = st.NpyArray(fname) if case['via'] == 'array' else fname
        if case['via'] == 'positional':
            B = st.NpyStore(target, bs, k)
        else:
            B = st.NpyStore(target, bs, n_batches=k)
    elif case['variant'] == 'pickle_grow':
        for i in range(k):
            A[i] = make_batch(case, init[i], 'ok', init_layout(case, i))
        blob = pickle.dumps(A)
        for i in range(k, len(init)):
            A[i] = make_batch(case, init[i], 'ok', init_layout(case, i))
        A.close() if case['orig'] == 'close' else A.flush()
        B = pickle.loads(blob)
    else:
        raise RuntimeError('unknown prefix variant %r' % (case['variant'],))
    _KEEP.append(A)
    path = fname + '.npy'

    def observe(err, flushlike, closed):
        o = dict(err=err, len=len(B), load=None, batches=None, phys=None)
        if flushlike:
            o['load'] = [load_cells(path)]
        if not closed:
            try:
                o['batches'] = [cells(np.array(B[i])) for i in range(len(B))]
            except (IndexError, ValueError) as e:
                o['batches'] = None
                o['read_error'] = '%s: %s' % (type(e).__name__, e)
            o['phys'] = len(B.array)
        return o

    obs = [observe(False, True, False)]
    for op in case['ops']:
        err = None
        try:
            kd = op[0]
            if kd == 'set':
                B[op[1]] = make_batch(case, op[3], op[2], op_layout(op))
            elif kd == 'del':
                del B[op[1]]
            elif kd == 'clear':
                B.clear()
            elif kd == 'flush':
                B.flush()
            elif kd == 'close':
                B.close()
            elif kd == 'pickle':
                old = B
                B = pickle.loads(pickle.dumps(old))
                old.close()
            elif kd == 'read':
                np.array(B[op[1]])
            else:
                raise RuntimeError('unknown op %r' % (op,))
        except (IndexError, ValueError, OverflowError, FileNotFoundError) as e:
            err = '%s: %s' % (type(e).__name__, e)
        obs.append(observe(err, op[0] in ('flush', 'close', 'pickle'), op[0] == 'close'))
    _KEEP.append(B)
    return obs


def init_layout(case, i):
    ls = case.get('init_layouts')
    return ls[i] if ls else None


def prefix_reference(case):
    """The in-memory sequence: a plain Python list of batches (logical content of the arrays handed
    in, whatever their layout).  Entry t = after t operations."""
    written = [cells(make_batch(case, v, 'ok', init_layout(case, i))) for i, v in enumerate(case['init'])]
    ref = written[:case['k']]
    out = [list(ref)]
    for op in case['ops']:
        if op[0] == 'set':
            b = cells(make_batch(case, op[3], op[2], op_layout(op)))
            if op[1] == len(ref):
                ref = ref + [b]
            else:
                ref = ref[:op[1]] + [b] + ref[op[1] + 1:]
        elif op[0] == 'del':
            ref = ref[:-1]
        elif op[0] == 'clear':
            ref = []
        out.append(list(ref))
    return out


def prefix_failures(case, obs):
    """Compare the observations of run_prefix with the list-of-batches reference."""
    refs = prefix_reference(case)
    ops = [['open']] + case['ops']
    if len(obs) != len(refs):
        return ['%d observations for %d steps' % (len(obs), len(refs))]
    for t, (op, o, ref) in enumerate(zip(ops, obs, refs)):
        where = 'step %d %r' % (t, op if op[0] != 'set' else op[:2])
        if o['err']:
            return ['%s raised %s (every operation of this stream is valid for the in-memory sequence)' % (where, o['err'])]
        if o['len'] != len(ref):
            return ['%s: len(store) = %d, in-memory sequence has %d batches' % (where, o['len'], len(ref))]
        if op[0] != 'close':
            if o['batches'] is None:
                return ['%s: reading store[0..%d) raised %s' % (where, o['len'], o.get('read_error'))]
            for i, (got, want) in enumerate(zip(o['batches'], ref)):
                if got != want:
                    return ['%s: store[%d] = %r, in-memory sequence has %r' % (where, i, got, want)]
        if o['load'] is not None:
            flat = [r for b in ref for r in b]
            got = o['load'][0]
            if got is None:
                return ['%s: numpy.load of the file failed' % where]
            if got[:len(flat)] != flat:
                i = next((j for j in range(len(flat)) if j >= len(got) or got[j] != flat[j]))
                return ['%s: numpy.load of the file, row %d (batch %d) = %r, in-memory sequence has %r (file has %d rows)'
                        % (where, i, i // case['bs'], got[i] if i < len(got) else None, flat[i], len(got))]
    return []


def history_shape(ops, logs):
    """Histogram keys describing the durability-relevant shape of a history, from the plain run's log:
    overwrites (memmap writes) by what the object had at that moment -- was the memmap created by an
    earlier query or by the overwrite itself, did the overwrite have to bring a pending header to the
    file first -- and whether the history ends with the store open after a content change."""
    keys = []
    for op, l in zip(ops, logs[1:]):
        kinds = [e[0] for e in l]
        if op[0] == 'set' and 'mem' in kinds:
            keys.append('overwrite:header_%s,memmap_%s' % ('pending' if 'header' in kinds else 'clean',
                                                            'created_now' if 'seekend' in kinds else 'from_earlier_read'))
        if op[0] == 'read' and 'seekend' in kinds:
            keys.append('read_creates_memmap')
    last_fl = max([i for i, o in enumerate(ops) if o[0] in ('flush', 'close', 'reopen', 'pickle', 'open')] + [-1])
    if any(o[0] in ('set', 'del', 'clear') for o in ops[last_fl + 1:]):
        keys.append('ends_open_with_unflushed_changes')
    return keys


# ----------------------------------------------------------------------------------------------
# Coq printers
# ----------------------------------------------------------------------------------------------

def c_rows(rows):
    return clist([clist([cn(x) for x in r]) for r in rows])


def c_lop(e):
    k = e[0]
    if k == 'open':
        return 'LOpen %s' % cbool(e[1])
    if k == 'seek':
        return 'LSeek'
    if k == 'seekend':
        return 'LSeekEnd'
    if k == 'prefix':
        return 'LWritePrefix'
    if k == 'header':
        return 'LWriteHeader %d' % e[1]
    if k == 'data':
        return 'LWriteData %d %s' % (e[1], c_rows(e[2]))
    if k == 'truncate':
        return 'LTruncate %d' % e[1]
    if k == 'flush':
        return 'LFlush'
    if k == 'close':
        return 'LClose'
    if k == 'mem':
        return 'LMemWrite %d %s' % (e[1], c_rows(e[2]))
    return None


def c_iop(case, op):
    """A history operation as Npy.iop: the array of a `set` as (shape, strides, offset, buffer)."""
    if op[0] == 'set' and op[2] in ('ok', 'swap'):
        x = make_batch(case, op[3], op[2], op_layout(op))
        return 'IArr %d %s %s' % (op[1], cbool(op[2] == 'ok'), nd_of(x, case['dtype']))
    return 'IOp (%s)' % c_hop(case, op)


def c_hop(case, op):
    k = op[0]
    if k == 'set':
        x = make_batch(case, op[3], op[2])
        if op[2] == 'baddtype':
            # an append refuses it whatever it holds; where the position already exists in the file (possible after a
            # `del` on a closed store, which lowers n_batches and leaves the file as it was) the memmap assignment
            # converts the values to the store's dtype, so those are the cells the operation carries
            x = x.astype(np.dtype(case['dtype']))
        return 'Set_ %d %s %s' % (op[1], cbool(op[2] == 'ok'), c_rows(cells(x)))
    if k == 'del':
        return 'Del %d' % op[1]
    if k == 'read':
        return 'Read %d' % op[1]
    if k == 'open':
        return 'Open %d' % op[1]
    if k == 'query':
        return 'Query'
    return {'clear': 'Clear', 'flush': 'Flush', 'close': 'Close', 'reopen': 'Reopen', 'pickle': 'Pickle'}[k]


class C06(PropCheck):
    pid = 'C06'
    header = ('From Coq Require Import List NArith ZArith Arith Bool.\nFrom Elfi Require Import Base.Harness Store.Layout Store.Npy.\n'
              'Import ListNotations.\nOpen Scope nat_scope.\n')
    case_type = 'Npy.case'
    preds = (('Npy.agree', 'agree'), ('Npy.ok', 'ok'))
    chunk = 8
    rule = ('histories of NpyStore operations (append/overwrite/delete-last/clear/flush/close+reopen/pickle+unpickle, with queries '
            '-- store[i], scans over all batches, a read past the visible end, len(store), i in store, len(store.array) -- interleaved anywhere '
            'at a per-history density of 0-50%, '
            'plus a malformed stream: index past the end, deleting a middle batch, wrong row shape/dtype, operations on a closed '
            'store) over the dtypes and row shapes listed at the end, batch sizes 1-4, each replayed with a kill on entering every '
            'low-level operation (file-object calls and writes through the memmap alike) and at the end of the history with the store '
            'still open (os._exit in a forked child: Python buffers lost, page cache kept); a durability-ordering stream (appends, a flush-like operation, '
            'then 2-5 segments each bringing the object into one of the states (header pending or not) x (memmap present or not) by '
            'append/flush/reopen/pickle/read/scan before one overwrite/append/delete-last/clear, queries at 20-80%, ending open with nothing '
            'flushed; histogram keys durable_state=*, overwrite:header_{pending,clean},memmap_{created_now,from_earlier_read} (from the logged trace)); '
            'non-trivial = history with a flush-like operation followed by at least one content-changing operation '
            'and at least 10 crash points; distinct by (dtype,row shape,batch size,operations).  Prefix stores (n_batches smaller than the '
            'number of batches in the file): (a) histories with open = NpyStore(filename, batch_size, n_batches=k), k below the number of '
            'batches in the file, followed by a write at index n_batches and further append/overwrite/delete-last/flush/pickle/read/open/reopen/'
            'clear operations, through the Coq model with all crash replays like the other histories; (b) a python-side differential stream '
            '(clause prefix_store_write, list-of-batches reference): the store is obtained through the n_batches argument (file name or NpyArray, '
            'keyword or positional, original closed or only flushed) or by unpickling a pickle taken before the original object appended more '
            'batches and flushed; then a write at index n_batches and further append/overwrite/delete-last/flush/pickle/read/clear operations; '
            'after every operation len(store) and every store[i], after flush-like operations the rows of numpy.load(file) at the visible '
            'batches; non-trivial = the file holds more batches than the store exposes and the write at index n_batches was carried out.  '
            'Memory layouts and dtypes (all streams): dtypes <f8 <i4 |b1 >f8 >i4 <u2 <c16, row shapes () (3,) (2,2) (2,3); the batch of every append '
            'and overwrite (and every initial batch of a prefix scenario) is handed in as C order / Fortran order (owning) / transposed view of a C '
            'array / last two axes swapped in memory / axes rotated in memory / every second element along the first or the last axis of a wider '
            'buffer (C- or Fortran-ordered) / negative strides on all axes, the first, the last / a window at an offset of a larger buffer / one '
            'row broadcast (stride 0) / overlapping sliding windows (all strides one element), 20% read-only; per history one layout for all '
            'batches (22%), all C (8%) or one per batch; an overwrite may come in the opposite byte order (same values; good=false: an append of '
            'it is rejected, an overwrite converts); a layout stream (8 quick / 40 thorough): 2-d and 3-d batches with bs>=2, only non-C layouts, '
            'appends, overwrites before and after a read created the memmap, flush/reopen/pickle.  The Coq case carries each array as shape + '
            'strides + offset + buffer of element codes read off the numpy array actually passed; Npy.lower computes its logical content '
            '(element (r, idx) -> row r, row-major position of idx), which the model writes and the specification holds.  Histogram keys layout=*, '
            'batch_memory={C+F,C-contiguous,F-contiguous,non-contiguous},ndim=*, batch_F_contiguous_only_with_2+_axes_longer_than_1, '
            'batch_not_C_contiguous_with_2+_axes_longer_than_1, batch_readonly, layout_for={overwrite,append_or_other}, '
            'overwrite_in_opposite_byte_order.  py clause caller_batch_untouched: store[i] = batch leaves the array handed in as it was')
    trusted = ('the low-level-operation interposer of harness/c06.py (proxy around the file object NpyArray opens, numpy.memmap subclass handed to '
               'elfi.store whose __setitem__ is numbered and logged; os._exit on entering a numbered operation); '
               'kill = os._exit: user-space buffers are lost, the page cache (including memmap writes) survives; power loss / filesystem reordering not modelled',
               'numpy.load as the reader of the file left behind',
               'the description of the array handed to the store (harness/c06.py nd_of: numpy .shape/.strides/byte_bounds and the raw bytes of the '
               'buffer; for a batch of the opposite byte order the buffer converted element-wise to the store dtype by numpy astype)')

    # -- generation ----------------------------------------------------------------------------
    def add_queries(self, ops, nb, p, tag='q'):
        """With probability p, append one query step after the operation just generated: a read of
        one batch, a scan (reads of all batches in order, what iterating over the store amounts to), a
        read just past the visible end, or len(store) / i in store / len(store.array)."""
        r = self.rng
        if r.random() >= p:
            return
        k = r.choices(['read', 'scan', 'readpast', 'len', 'contains', 'arraylen'], [40, 14, 6, 14, 13, 13])[0]
        if k == 'read':
            if nb == 0:
                return
            ops.append(['read', r.randrange(nb)])
        elif k == 'scan':
            if nb == 0:
                return
            ops.extend(['read', i] for i in range(nb))
        elif k == 'readpast':
            ops.append(['read', nb])
        elif k == 'contains':
            ops.append(['query', 'contains', r.randint(0, nb + 1)])
        else:
            ops.append(['query', k])
        self.bump('%s=%s' % (tag, k))

    def gen_history(self, malformed):
        r = self.rng
        case = dict(dtype=r.choice(DTYPES), rowshape=list(r.choice(SHAPES)), bs=r.randint(1, 4), ops=[])
        n = r.randint(4, 12)
        pq = r.choice([0.0, 0.2, 0.35, 0.5])     # how densely queries are interleaved in this history
        nb = 0          # expected number of batches
        nxt = [1]
        closed = False
        inited = False

        def vals():
            v = list(range(nxt[0], nxt[0] + case['bs']))
            nxt[0] += case['bs']
            return v
        ops = case['ops']
        if r.random() < 0.15:      # something before initialisation
            ops.append([r.choice(['flush', 'clear', 'close', 'del'])] if True else None)
            if ops[-1][0] == 'del':
                ops[-1] = ['del', 0]
        ops.append(['set', 0, 'ok', vals()])
        nb, inited = 1, True
        weights = [('append', 30), ('over', 16), ('del', 12), ('clear', 4), ('flush', 12), ('reopen', 8), ('pickle', 7), ('read', 6)]
        if malformed:
            weights += [('bad', 18), ('close', 5)]
        names = [w[0] for w in weights]
        ws = [w[1] for w in weights]
        while len(ops) < n:
            k = r.choices(names, ws)[0]
            if k == 'append':
                ops.append(['set', nb, 'ok', vals()])
                if not closed:
                    nb += 1
            elif k == 'over':
                if nb == 0:
                    continue
                ops.append(['set', r.randrange(nb), 'ok', vals(), {'over': True}])
            elif k == 'del':
                if nb == 0:
                    continue
                ops.append(['del', nb - 1])
                nb -= 1
            elif k == 'clear':
                ops.append(['clear'])
                if not closed:
                    nb = 0
            elif k in ('flush', 'pickle'):
                ops.append([k])
                if k == 'pickle':
                    closed = False
            elif k == 'reopen':
                ops.append(['reopen'])
                closed = False
            elif k == 'read':
                if nb == 0:
                    continue
                ops.append(['read', r.randrange(nb)])
            elif k == 'close':
                ops.append(['close'])
                closed = True
            elif k == 'bad':
                b = r.choice(['far', 'delmid', 'delpast', 'shape', 'dtype'])
                if b == 'far':
                    ops.append(['set', nb + r.randint(1, 2), 'ok', vals()])
                elif b == 'delmid':
                    if nb < 2:
                        continue
                    ops.append(['del', r.randrange(nb - 1)])
                elif b == 'delpast':
                    ops.append(['del', nb + r.randint(0, 1)])
                elif b == 'shape' and not any(o[0] == 'close' for o in ops):
                    # only where position nb is certainly an append: after a close, a `del` lowers n_batches and leaves
                    # the file as it was, position nb then exists in the file and the assignment through the memmap
                    # raises for a wrong shape, which Set_ does not describe (it carries cells, not a shape)
                    ops.append(['set', nb, 'badshape', vals()])
                else:
                    ops.append(['set', nb, 'baddtype', vals()])
            self.bump('op=' + k)
            if k != 'read':
                self.add_queries(ops, nb, pq)
        if r.random() < 0.3 and not closed:
            ops.append(['close'])
        return case

    def gen_durable(self):
        """Durability-ordering stream: a valid history that starts with one to three appends and a
        flush-like operation and then runs two to five segments.  Each segment first brings the object
        into one of the four states (header pending or not) x (memmap present or not) -- by an append
        (pending, memmap dropped), a flush (clean, memmap kept), a reopen/pickle (clean, memmap dropped), a
        read or scan (memmap created) -- sprinkles further queries, and then performs one content-changing
        operation (overwrite of any batch, append, delete-last, clear).  The history ends as it is: store
        open, nothing flushed, nothing closed.  The kill points include every memmap write and the end of
        the history, so what is judged is the order in which header and data reached the OS in every
        state the object can be in when the change is made."""
        r = self.rng
        case = dict(dtype=r.choice(DTYPES), rowshape=list(r.choice(SHAPES)), bs=r.randint(1, 3), ops=[])
        ops = case['ops']
        nxt = [1]

        def vals():
            v = list(range(nxt[0], nxt[0] + case['bs']))
            nxt[0] += case['bs']
            return v
        pq = r.choice([0.2, 0.5, 0.8])
        nb = r.randint(1, 3)
        for i in range(nb):
            ops.append(['set', i, 'ok', vals()])
            if i + 1 < nb:
                self.add_queries(ops, i + 1, 0.3, 'dq')
        fl = r.choice(['flush', 'flush', 'reopen', 'pickle'])
        ops.append([fl])
        pend, mm = False, False       # what the generator expects the object to have (only steers the choice)
        for seg in range(r.randint(2, 5)):
            want_pend, want_mm = r.random() < 0.5, r.random() < 0.5
            if want_pend:
                if not pend:
                    ops.append(['set', nb, 'ok', vals()])
                    nb += 1
                    pend, mm = True, False
            elif pend or (mm and not want_mm):
                k = 'flush' if (want_mm or not mm) and r.random() < 0.8 else r.choice(['reopen', 'pickle'])
                ops.append([k])
                pend = False
                if k != 'flush':
                    mm = False
            if want_mm and not mm and nb > 0:
                if r.random() < 0.75:
                    ops.append(['read', r.randrange(nb)])
                else:
                    ops.extend(['read', i] for i in range(nb))
                mm = True
            self.bump('durable_state=%s,%s' % ('pending' if pend else 'clean', 'memmap' if mm else 'nomemmap'))
            self.add_queries(ops, nb, pq, 'dq')
            if ops[-1][0] == 'read':
                mm = True
            k = r.choices(['over', 'append', 'del', 'clear'], [55, 20, 20, 5])[0]
            if k in ('over', 'del') and nb == 0:
                k = 'append'
            if k == 'over':
                ops.append(['set', r.randrange(nb), 'ok', vals(), {'over': True}])
                pend, mm = False, True
            elif k == 'append':
                ops.append(['set', nb, 'ok', vals()])
                nb += 1
                pend, mm = True, False
            elif k == 'del':
                ops.append(['del', nb - 1])
                nb -= 1
                pend, mm = False, False
            else:
                ops.append(['clear'])
                pend, mm = (nb == 0), False
                nb = 0
            self.bump('durable_op=' + k)
            self.add_queries(ops, nb, pq, 'dq')
            if ops[-1][0] == 'read':
                mm = True
        return case

    def gen_open_history(self):
        """A valid history with one or two `open` operations (NpyStore(filename, bs, n_batches=k), k at most
        the number of batches in the file), a write at index n_batches right after the first one, and
        further operations; goes through the Coq model like the other histories (crash replays included)."""
        r = self.rng
        case = dict(dtype=r.choice(DTYPES), rowshape=list(r.choice(SHAPES)), bs=r.randint(1, 3), ops=[])
        ops = case['ops']
        nxt = [1]

        def vals():
            v = list(range(nxt[0], nxt[0] + case['bs']))
            nxt[0] += case['bs']
            return v
        phys = r.randint(2, 4)                       # batches in the file
        for i in range(phys):
            ops.append(['set', i, 'ok', vals()])
        if r.random() < 0.3:
            ops.append(['flush'])
        nb = r.randrange(phys)                       # strictly fewer than the file holds
        ops.append(['open', nb])
        ops.append(['set', nb, 'ok', vals()])        # the write at index n_batches
        nb += 1
        n = len(ops) + r.randint(1, 5)
        weights = [('append', 30), ('over', 16), ('del', 14), ('flush', 10), ('pickle', 6), ('read', 5), ('open', 8), ('reopen', 5), ('clear', 2)]
        while len(ops) < n:
            k = r.choices([w[0] for w in weights], [w[1] for w in weights])[0]
            if k == 'append':
                ops.append(['set', nb, 'ok', vals()])
                phys = max(phys, nb + 1)
                nb += 1
            elif k == 'over':
                if nb == 0:
                    continue
                ops.append(['set', r.randrange(nb), 'ok', vals(), {'over': True}])
            elif k == 'del':
                if nb == 0:
                    continue
                ops.append(['del', nb - 1])
                nb -= 1
                phys = nb
            elif k == 'read':
                if nb == 0:
                    continue
                ops.append(['read', r.randrange(nb)])
            elif k == 'open':
                if phys == 0:
                    continue
                nb = r.randint(0, phys)
                ops.append(['open', nb])
            elif k == 'reopen':
                ops.append(['reopen'])
                nb = phys
            elif k == 'clear':
                ops.append(['clear'])
                nb = phys = 0
            else:
                ops.append([k])
            self.bump('open_op=' + k)
            if k != 'read':
                self.add_queries(ops, nb, 0.25, 'open_q')
        if r.random() < 0.3:
            ops.append(['close'])
        return case

    def gen_prefix(self, variant=None):
        """One scenario of the prefix-store stream: a file with len(init) batches, a store exposing
        the first k < len(init) of them, a write at index k, then further valid operations."""
        r = self.rng
        case = dict(kind='prefix', dtype=r.choice(DTYPES), rowshape=list(r.choice(SHAPES)), bs=r.randint(1, 4),
                    variant=variant or r.choice(['nbatches_arg', 'pickle_grow']), orig=r.choice(['close', 'flush']))
        if case['variant'] == 'nbatches_arg':
            case['via'] = r.choice(['file', 'array', 'positional'])
        k = r.choice([0, 1, 1, 2, 2, 3])
        extra = r.choice([1, 1, 2, 2, 3])
        nxt = [1]

        def vals():
            v = list(range(nxt[0], nxt[0] + case['bs']))
            nxt[0] += case['bs']
            return v
        case['k'] = k
        case['init'] = [vals() for _ in range(k + extra)]
        ops = case['ops'] = [['set', k, 'ok', vals()]]       # the write at index n_batches
        nb = k + 1
        first = r.choice(['append', 'over', 'del', 'flush', None, None])   # what directly follows the write
        n = r.randint(2, 8)
        weights = [('append', 30), ('over', 18), ('del', 16), ('flush', 10), ('pickle', 7), ('read', 5), ('clear', 3)]
        while len(ops) < n:
            kd = first or r.choices([w[0] for w in weights], [w[1] for w in weights])[0]
            first = None
            if kd == 'append':
                ops.append(['set', nb, 'ok', vals()])
                nb += 1
            elif kd == 'over':
                if nb == 0:
                    continue
                ops.append(['set', r.randrange(nb), 'ok', vals(), {'over': True}])
            elif kd == 'del':
                if nb == 0:
                    continue
                ops.append(['del', nb - 1])
                nb -= 1
            elif kd == 'read':
                if nb == 0:
                    continue
                ops.append(['read', r.randrange(nb)])
            elif kd == 'clear':
                ops.append(['clear'])
                nb = 0
            else:
                ops.append([kd])
            self.bump('prefix_op=' + kd)
        ops.append([r.choice(['flush', 'flush', 'close'])])
        return case

    def note_layout(self, case, lo):
        """histogram of the memory layouts actually handed to the store (flags read off a real array)"""
        extents = [case['bs']] + list(case['rowshape'])
        x = apply_layout(np.zeros(extents, dtype=np.dtype(case['dtype'])), lo['lay'])
        cls = ('C+F' if x.flags.c_contiguous and x.flags.f_contiguous else 'C-contiguous' if x.flags.c_contiguous
               else 'F-contiguous' if x.flags.f_contiguous else 'non-contiguous')
        self.bump('layout=' + lo['lay'])
        self.bump('batch_memory=%s,ndim=%d' % (cls, len(extents)))
        if sum(1 for n in extents if n > 1) >= 2 and not x.flags.c_contiguous:
            self.bump('batch_not_C_contiguous_with_2+_axes_longer_than_1')
        if sum(1 for n in extents if n > 1) >= 2 and x.flags.f_contiguous and not x.flags.c_contiguous:
            self.bump('batch_F_contiguous_only_with_2+_axes_longer_than_1')
        if lo['ro'] or not x.flags.writeable:
            self.bump('batch_readonly')
        return lo

    def add_layouts(self, case, stream):
        """Give the batch of every well-formed `set` operation (and every initial batch of a prefix
        scenario) a memory layout; a history uses either one layout for all its batches or an
        independent one per batch.  An overwrite of a store that was initialised by the first
        operation may hand in the batch in the opposite byte order (same values).  Choices come from
        a generator of their own, so the histories themselves are those of earlier versions."""
        r = self.lrng
        dt = np.dtype(case['dtype'])
        names = [l[0] for l in LAYOUTS]
        ws = [l[1] for l in LAYOUTS]
        mode = r.choices(['mixed', 'uniform', 'allC'], [70, 22, 8])[0]
        one = r.choices(names, ws)[0]

        def pick():
            lay = 'C' if mode == 'allC' else one if mode == 'uniform' else r.choices(names, ws)[0]
            return self.note_layout(case, {'lay': lay, 'ro': r.random() < 0.2})
        ops = case['ops']
        init_first = bool(ops) and ops[0][0] == 'set' and case.get('kind') != 'prefix'
        for t, op in enumerate(ops):
            if op[0] != 'set':
                continue
            over = len(op) > 4 and op[4].get('over')
            del op[4:]
            if op[2] != 'ok':
                continue
            if over and t > 0 and init_first and dt.kind in 'fiu' and dt.itemsize > 1 and r.random() < 0.12:
                op[2] = 'swap'
                self.bump('overwrite_in_opposite_byte_order')
            op.append(pick())
            self.bump('layout_for=' + ('overwrite' if over else 'append_or_other'))
        if case.get('kind') == 'prefix':
            case['init_layouts'] = [pick() for _ in case['init']]
        return case

    def generate(self):
        st = self.rng.getstate()
        self.lrng = random.Random(repr((self.seed, 'layouts', st[1][:4], st[1][-1])))
        for case in self.generate_histories():
            stream = 'prefix' if case.get('kind') == 'prefix' else 'history'
            yield self.add_layouts(case, stream)
        # a layout stream of its own: short histories over 2-d and 3-d batches with at least two axes
        # longer than 1, every batch in a different non-C layout, appended, overwritten (before and after
        # a read created the memmap), flushed, reopened and unpickled
        for i in range(8 if self.tier == 'quick' else 40):
            self.bump('stream=layout')
            yield self.gen_layout()

    def gen_layout(self):
        r = self.lrng
        case = dict(dtype=r.choice(DTYPES), rowshape=list(r.choice([(3,), (2, 2), (2, 3)])), bs=r.randint(2, 3), ops=[])
        ops = case['ops']
        nxt = [1]
        nonC = [l for l in LAYOUTS if l[0] != 'C']

        def setop(i, over=False):
            v = list(range(nxt[0], nxt[0] + case['bs']))
            nxt[0] += case['bs']
            lay = r.choices([l[0] for l in nonC], [l[1] for l in nonC])[0]
            self.bump('layout_for=' + ('overwrite' if over else 'append_or_other'))
            return ['set', i, 'ok', v, self.note_layout(case, {'lay': lay, 'ro': r.random() < 0.2})]
        nb = 0
        for seg in range(2):
            for _ in range(r.randint(1, 2)):
                ops.append(setop(nb))
                nb += 1
            if r.random() < 0.5:
                ops.append(['read', r.randrange(nb)])
            ops.append(setop(r.randrange(nb), True))
            ops.append([r.choice(['flush', 'reopen', 'pickle', 'flush'])])
            if r.random() < 0.3:
                ops.append(setop(r.randrange(nb), True))
        self.bump('layout_dtype=' + case['dtype'])
        self.bump('layout_rowshape=' + str(tuple(case['rowshape'])))
        return case

    def generate_histories(self):
        n = 60 if self.tier == 'quick' else 700
        # (the two defect histories found while building this check live in corpus/C06 and run first)
        A, B, X = [1, 2], [3, 4], [5, 6]
        base = dict(dtype='<f8', rowshape=[3], bs=2)
        yield dict(base, ops=[['set', 0, 'ok', A], ['set', 1, 'ok', B], ['reopen'], ['clear'], ['set', 0, 'ok', X], ['pickle'], ['set', 0, 'ok', B]])
        # the history of C06_unflushed_header_refuted / C06_example_read_then_overwrite (Properties/C06.v), with
        # every kind of query between the append and the overwrite, ending with the store open
        yield dict(base, ops=[['set', 0, 'ok', A], ['flush'], ['set', 1, 'ok', B], ['query', 'len'], ['read', 0], ['query', 'contains', 1],
                              ['query', 'arraylen'], ['set', 0, 'ok', X]])
        self.bump('stream=theorem-witness')
        for i in range(n):
            malformed = (i % 5 == 4)
            case = self.gen_history(malformed)
            self.bump('stream=' + ('malformed' if malformed else 'valid'))
            self.bump('dtype=' + case['dtype'])
            self.bump('rowshape=' + str(tuple(case['rowshape'])))
            self.bump('bs=%d' % case['bs'])
            yield case
        # durability ordering: flush, then content-changing operations densely interleaved with queries, no
        # flush/close at the end
        for i in range(24 if self.tier == 'quick' else 200):
            self.bump('stream=durable')
            case = self.gen_durable()
            self.bump('durable_bs=%d' % case['bs'])
            yield case
        # prefix stores (n_batches < batches in the file).  Generated after the histories above so that
        # those stay the same for a given seed.
        A, B, C, X, Y = [1, 2], [3, 4], [5, 6], [7, 8], [9, 10]
        # (a) through the Coq model: histories with `open` = NpyStore(filename, bs, n_batches=k)
        yield dict(base, ops=[['set', 0, 'ok', A], ['set', 1, 'ok', B], ['set', 2, 'ok', C], ['open', 1], ['set', 1, 'ok', X], ['flush'],
                              ['set', 2, 'ok', Y], ['del', 2], ['del', 1], ['set', 1, 'ok', B], ['reopen']])
        self.bump('stream=open')
        for i in range(14 if self.tier == 'quick' else 200):
            self.bump('stream=open')
            yield self.gen_open_history()
        # (b) python-side differential stream (also the pickle / grow / unpickle route, two live objects)
        fixed = [
            dict(base, kind='prefix', variant='nbatches_arg', via='file', orig='close', k=1, init=[A, B, C],
                 ops=[['set', 1, 'ok', X], ['flush']]),
            dict(base, kind='prefix', variant='pickle_grow', orig='flush', k=1, init=[A, B, C],
                 ops=[['set', 1, 'ok', X], ['flush'], ['set', 2, 'ok', Y], ['set', 0, 'ok', A], ['del', 2], ['del', 1],
                      ['set', 1, 'ok', B], ['close']]),
            dict(base, kind='prefix', variant='nbatches_arg', via='array', orig='flush', k=0, init=[A, B],
                 ops=[['set', 0, 'ok', X], ['set', 1, 'ok', Y], ['set', 2, 'ok', C], ['flush']]),
        ]
        m = 40 if self.tier == 'quick' else 500
        for i in range(m):
            case = fixed[i] if i < len(fixed) else self.gen_prefix(['nbatches_arg', 'pickle_grow'][i % 2])
            self.bump('stream=prefix')
            self.bump('prefix_variant=' + case['variant'] + ('/' + case['via'] if 'via' in case else '') + '/orig-' + case['orig'])
            self.bump('prefix_k=%d' % case['k'])
            self.bump('prefix_tail=%d' % (len(case['init']) - case['k']))
            yield case

    # -- implementation ------------------------------------------------------------------------
    _ctr = 0

    def fresh_name(self):
        C06._ctr += 1
        d = os.path.join(wdir('C06'), 'files')
        os.makedirs(d, exist_ok=True)
        return os.path.join(d, 'a%d_%d' % (os.getpid(), C06._ctr))

    def run_impl(self, case):
        import elfi.store  # noqa: imported once in the parent, the forked children only patch their copy
        if case.get('kind') == 'prefix':
            f0 = self.fresh_name()
            try:
                obs = in_child(lambda: run_prefix(case, f0))
                # the comparison with the list-of-batches reference is stored with the output so that the
                # replay file shows the first difference; py_check reports one clause per variant
                return dict(prefix_obs=obs, prefix_reference=prefix_reference(case), prefix_diff=prefix_failures(case, obs))
            finally:
                os.path.exists(f0 + '.npy') and os.remove(f0 + '.npy')
        f1 = self.fresh_name()
        logs_obs, obs = in_child(lambda: run_history(case, None, True, f1))
        os.path.exists(f1 + '.npy') and os.remove(f1 + '.npy')
        f2 = self.fresh_name()
        logs, _ = in_child(lambda: run_history(case, None, False, f2))
        final = load_cells(f2 + '.npy')
        os.path.exists(f2 + '.npy') and os.remove(f2 + '.npy')
        total = sum(len(l) for l in logs)      # every low-level operation is a kill point, memmap writes included
        crash = []
        for k in range(total + 1):
            f3 = self.fresh_name()
            crash_child(case, k, f3)
            crash.append([k, load_cells(f3 + '.npy')])
            os.path.exists(f3 + '.npy') and os.remove(f3 + '.npy')
        self.bump('crash_points', total + 1)
        self.bump('crash_points_at_or_after_memmap_write', sum(1 for l in logs for e in l if e[0] == 'mem'))
        for key in history_shape(case['ops'], logs):
            self.bump(key)
        return dict(logs=logs, logs_obs=logs_obs, obs=obs, crash=crash, final=final)

    def py_check(self, case, out):
        if case.get('kind') == 'prefix':
            if prefix_failures(case, out['prefix_obs']):
                return [('prefix_store_write', 'a store with n_batches smaller than the number of batches in the file (variant %s) '
                         'does not report the in-memory sequence after a write at index n_batches and the operations that follow; '
                         'first difference: see prefix_diff in impl_output' % case['variant'])]
            return []
        bad = [e for l in out['logs'] + out['logs_obs'] for e in l if c_lop(e) is None]
        if bad:
            return [('file_ops_recognised', 'the store issued a file operation outside the modelled repertoire: %r' % (bad[:3],))]
        if out['crash'][-1][1] != out['final']:
            return [('deterministic_replay', 'the crash-free replay left a different file than the plain run')]
        t = [i for i, o in enumerate(out['obs']) if o.get('touched')]
        if t:
            return [('caller_batch_untouched', 'store[i] = batch modified the array it was handed (buffer bytes, shape, strides or flags) '
                     'at operation(s) %r: %r' % (t, [case['ops'][i][:3] + case['ops'][i][4:] for i in t]))]
        return []

    def nontrivial(self, case, out):
        if case.get('kind') == 'prefix':
            # the file holds more batches than the store exposes and the write at index n_batches was carried out
            ok = len(case['init']) > case['k'] and case['ops'][0][:2] == ['set', case['k']] and not out['prefix_obs'][1]['err']
            return json.dumps(case, sort_keys=True) if ok else None
        ops = case['ops']
        fl = [i for i, o in enumerate(ops) if o[0] in ('flush', 'reopen', 'pickle', 'open')]
        if not fl or len(out['crash']) < 10:
            return None
        if not any(o[0] in ('set', 'del', 'clear') for o in ops[fl[0] + 1:]):
            return None
        return json.dumps(case, sort_keys=True)

    def to_coq(self, case, out):
        if case.get('kind') == 'prefix':
            return None          # python-side clause only (two live objects over one file are not in the Coq model)
        if any(c_lop(e) is None for l in out['logs'] + out['logs_obs'] for e in l):
            return None
        logs, logs_obs = out['logs'], out['logs_obs']
        if logs[0] != [['open', True]] or logs_obs[0] != [['open', True]]:
            return None
        tr = clist([clist([c_lop(e) for e in l]) for l in logs[1:]], sep=';\n     ')
        tro = clist([clist([c_lop(e) for e in l]) for l in logs_obs[1:]], sep=';\n     ')
        oracle = [999 if e[0] == 'seek' else 0 for l in logs for e in l]
        obs = []
        for o in out['obs']:
            ld = 'None' if o['load'] is None else '(Some %s)' % copt(o['load'][0], c_rows)
            bt = 'None' if o['batches'] is None else '(Some %s)' % clist([c_rows(b) for b in o['batches']])
            obs.append('{| o_err := %s; o_len := %d; o_batches := %s; o_load := %s |}' % (cbool(o['err']), o['len'], bt, ld))
        crash = clist(['(%d, %s)' % (k, copt(c, c_rows)) for k, c in out['crash']], sep=';\n     ')
        return ('{| c_variant := current; c_bs := %d;\n   c_in := %s;\n   c_trace := %s;\n   c_obs := %s;\n   c_trace_obs := %s;\n'
                '   c_oracle := %s;\n   c_crash := %s |}'
                % (case['bs'], clist([c_iop(case, op) for op in case['ops']], sep=';\n     '), tr,
                   clist(obs, sep=';\n     '), tro, clist([str(x) for x in oracle]), crash))


if __name__ == '__main__':
    sys.exit(run_check(C06))
