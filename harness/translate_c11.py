"""C11 translator (DESIGN.md 4.2): Python `ast` -> Gallina, fail-closed.

Regenerates `coq/Gen/C11_Lcbsc.v` from the *source text* of `LCBSC.evaluate` and
`LCBSC.evaluate_gradient` (`<repo>/elfi/methods/bo/acquisition.py`).  Per function it emits the scalar
(one row, one coordinate) reading of the numpy element-wise formula

  * over `R` (`lcbsc`, `lcbsc_grad`)   -- the derivative theorem of Proofs/C11_Lcbsc.v is about these;
  * over `Q` (`lcbscQ`, `lcbsc_gradQ`) -- same expression tree with `sqrt` as an oracle `Q -> Q`,
                                          evaluated by the correspondence check against the real method.

Accepted (anything else raises `TranslateError`; the check then reports the obligation as broken):

  * signature `(self, x, t=None)`, optional docstring;
  * `mean, var = self.model.predict(x, noiseless=True)` and
    `grad_mean, grad_var = self.model.predictive_gradients(x)`  (introduce the surrogate's values as parameters);
  * `name = <expr>` with <expr> built from + - * /, unary minus, numeric literals that are exact in
    binary64, bound names, `self._beta(t)` (the parameter `beta`) and `np.sqrt(e)`;
  * the additive-cost statement, verbatim:
    `if self.additive_cost is not None: value += self.additive_cost.evaluate(x)` (resp. `.evaluate_gradient(x)`),
    read as `value + cost` with a parameter `cost` (resp. `grad_cost`) that is 0 when no cost is configured;
  * `return value`.

Run as a script (`/venv/bin/python harness/translate_c11.py`) it writes coq/Gen/C11_Lcbsc.v from $ELFI_REPO
(default /repo); `--print [repo]` prints the translation instead.
"""
import ast
import fractions
import os


class TranslateError(Exception):
    pass


def _norm(src):
    return ast.unparse(ast.parse(src))


PREDICT = _norm('mean, var = self.model.predict(x, noiseless=True)')
GRADS = _norm('grad_mean, grad_var = self.model.predictive_gradients(x)')

SPEC = {
    'evaluate': dict(coq='lcbsc', bindings=[PREDICT], params=['beta', 'mean', 'var', 'cost'], cost='cost',
                     cost_stmt=_norm('if self.additive_cost is not None:\n    value += self.additive_cost.evaluate(x)')),
    'evaluate_gradient': dict(coq='lcbsc_grad', bindings=[PREDICT, GRADS],
                              params=['beta', 'mean', 'var', 'grad_mean', 'grad_var', 'grad_cost'], cost='grad_cost',
                              cost_stmt=_norm('if self.additive_cost is not None:\n'
                                              '    value += self.additive_cost.evaluate_gradient(x)')),
}
BOUND_BY = {PREDICT: ['mean', 'var'], GRADS: ['grad_mean', 'grad_var']}
RESERVED = {'sqrt', 'sqrtf', 'R', 'Q', 'let', 'in', 'fun', 'forall', 'beta', 'cost', 'grad_cost', 'x', 't', 'self'}


def expr(node, env):
    """-> ('num', Fraction) | ('var', name) | ('neg', e) | (op, a, b) | ('sqrt', e)"""
    if isinstance(node, ast.Constant):
        v = node.value
        if isinstance(v, bool) or not isinstance(v, (int, float)):
            raise TranslateError('literal %r not accepted' % (v,))
        if isinstance(v, float) and (v != v or v in (float('inf'), float('-inf'))):
            raise TranslateError('non-finite literal')
        f = fractions.Fraction(repr(v)) if isinstance(v, float) else fractions.Fraction(v)
        if fractions.Fraction(v) != f:
            raise TranslateError('literal %r is not exactly representable in binary64' % (v,))
        return ('num', f)
    if isinstance(node, ast.Name):
        if node.id not in env:
            raise TranslateError('unbound name %s' % node.id)
        return ('var', node.id)
    if isinstance(node, ast.UnaryOp):
        if isinstance(node.op, ast.USub):
            return ('neg', expr(node.operand, env))
        if isinstance(node.op, ast.UAdd):
            return expr(node.operand, env)
        raise TranslateError('unary operator %s' % type(node.op).__name__)
    if isinstance(node, ast.BinOp):
        ops = {ast.Add: 'add', ast.Sub: 'sub', ast.Mult: 'mul', ast.Div: 'div'}
        if type(node.op) not in ops:
            raise TranslateError('binary operator %s not accepted' % type(node.op).__name__)
        return (ops[type(node.op)], expr(node.left, env), expr(node.right, env))
    if isinstance(node, ast.Call):
        txt = ast.unparse(node)
        if txt == 'self._beta(t)':
            return ('var', 'beta')
        if node.keywords:
            raise TranslateError('keyword arguments not accepted: %s' % txt)
        if ast.unparse(node.func) == 'np.sqrt' and len(node.args) == 1:
            return ('sqrt', expr(node.args[0], env))
        raise TranslateError('call %s not accepted' % txt)
    raise TranslateError('expression form %s not accepted: %s' % (type(node).__name__, ast.unparse(node)))


def _num(f, field):
    if field == 'R':
        if f.denominator == 1:
            return '%d' % f.numerator if f.numerator >= 0 else '(- %d)' % -f.numerator
        s = '(%d / %d)' % (abs(f.numerator), f.denominator)
        return s if f.numerator >= 0 else '(- %s)' % s
    return '(%d # %d)' % (f.numerator, f.denominator)


def pr(t, field):
    k = t[0]
    if k == 'num':
        return _num(t[1], field)
    if k == 'var':
        return t[1]
    if k == 'neg':
        return '(- %s)' % pr(t[1], field)
    if k in ('add', 'sub', 'mul', 'div'):
        return '(%s %s %s)' % (pr(t[1], field), {'add': '+', 'sub': '-', 'mul': '*', 'div': '/'}[k], pr(t[2], field))
    if k == 'sqrt':
        return ('(sqrt %s)' if field == 'R' else '(sqrtf %s)') % pr(t[1], field)
    raise TranslateError('internal: node kind %r' % (k,))


def translate_function(fn, spec):
    body = list(fn.body)
    if body and isinstance(body[0], ast.Expr) and isinstance(getattr(body[0], 'value', None), ast.Constant) \
            and isinstance(body[0].value.value, str):
        body = body[1:]
    a = fn.args
    if [x.arg for x in a.args] != ['self', 'x', 't'] or a.vararg or a.kwarg or a.kwonlyargs or fn.decorator_list \
            or len(a.defaults) != 1 or ast.unparse(a.defaults[0]) != 'None':
        raise TranslateError('%s: unexpected signature' % fn.name)
    env = {'beta'}
    lets = []
    seen = []
    have_cost = False
    returned = None
    for st in body:
        txt = ast.unparse(st)
        if returned is not None:
            raise TranslateError('%s: statement after return: %r' % (fn.name, txt))
        if txt in spec['bindings']:
            if txt in seen:
                raise TranslateError('%s: oracle bound twice: %r' % (fn.name, txt))
            if any(n in BOUND_BY[txt] for n, _ in lets):
                raise TranslateError('%s: oracle name shadowed' % fn.name)
            seen.append(txt)
            env |= set(BOUND_BY[txt])
            continue
        if txt == spec['cost_stmt']:
            if have_cost or 'value' not in env:
                raise TranslateError('%s: additive-cost statement misplaced' % fn.name)
            have_cost = True
            lets.append(('value', ('add', ('var', 'value'), ('var', spec['cost']))))
            continue
        if isinstance(st, ast.Return):
            if st.value is None or ast.unparse(st.value) != 'value' or 'value' not in env:
                raise TranslateError('%s: return form not accepted: %r' % (fn.name, txt))
            returned = ('var', 'value')
            continue
        if isinstance(st, ast.Assign) and len(st.targets) == 1 and isinstance(st.targets[0], ast.Name):
            name = st.targets[0].id
            if name in RESERVED or name in spec['params']:
                raise TranslateError('%s: assignment to reserved/oracle name %s' % (fn.name, name))
            lets.append((name, expr(st.value, env)))
            env.add(name)
            continue
        raise TranslateError('%s: statement form not accepted: %r' % (fn.name, txt))
    if returned is None:
        raise TranslateError('%s: no return' % fn.name)
    if sorted(seen) != sorted(spec['bindings']):
        raise TranslateError('%s: oracle bindings %s (expected %s)' % (fn.name, seen, spec['bindings']))
    if not have_cost:
        raise TranslateError('%s: additive-cost statement missing' % fn.name)
    return lets, returned


def _emit(name, params, lets, result, field):
    ty = field
    head = 'Definition %s %s(%s : %s) : %s :=' % (name, '(sqrtf : Q -> Q) ' if field == 'Q' else '', ' '.join(params), ty, ty)
    body = ''
    for n, t in lets:
        body += '   let %s := %s in\n' % (n, pr(t, field))
    body += '   %s' % pr(result, field)
    return head + '\n  (' + body.lstrip() + ')%' + field + '.'


def translate(repo):
    path = os.path.join(repo, 'elfi', 'methods', 'bo', 'acquisition.py')
    tree = ast.parse(open(path).read())
    cls = [n for n in tree.body if isinstance(n, ast.ClassDef) and n.name == 'LCBSC']
    if len(cls) != 1:
        raise TranslateError('class LCBSC not found exactly once')
    out = ['(* GENERATED on every run by harness/translate_c11.py from the source text of',
           '   %s (class LCBSC) -- do not edit, not committed. *)' % path,
           'From Coq Require Import Reals QArith.', '']
    for fname, spec in SPEC.items():
        fns = [n for n in cls[0].body if isinstance(n, ast.FunctionDef) and n.name == fname]
        if len(fns) != 1:
            raise TranslateError('method %s not found exactly once' % fname)
        lets, result = translate_function(fns[0], spec)
        out.append('(* LCBSC.%s *)' % fname)
        out.append(_emit(spec['coq'], spec['params'], lets, result, 'R'))
        out.append(_emit(spec['coq'] + 'Q', spec['params'], lets, result, 'Q'))
        out.append('')
    return '\n'.join(out)


def generate(repo, coqdir):
    """Write coq/Gen/C11_Lcbsc.v (a refused translation removes the stale file and its products)."""
    dst = os.path.join(coqdir, 'Gen', 'C11_Lcbsc.v')
    os.makedirs(os.path.dirname(dst), exist_ok=True)
    try:
        txt = translate(repo)
    except Exception:
        for ext in ('.v', '.vo', '.glob', '.vok', '.vos'):
            try:
                os.remove(dst[:-2] + ext)
            except OSError:
                pass
        raise
    old = open(dst).read() if os.path.exists(dst) else None
    if old != txt:
        with open(dst, 'w') as f:
            f.write(txt)
    return dst


def main(argv=None):
    import sys
    argv = sys.argv[1:] if argv is None else argv
    if argv and argv[0] == '--print':
        print(translate(argv[1] if len(argv) > 1 else os.environ.get('ELFI_REPO', '/repo')))
        return 0
    repo = argv[0] if argv else os.environ.get('ELFI_REPO', '/repo')
    coqdir = os.path.join(os.path.dirname(os.path.dirname(os.path.abspath(__file__))), 'coq')
    print(generate(repo, coqdir))
    return 0


if __name__ == '__main__':
    raise SystemExit(main())
