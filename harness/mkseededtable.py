"""Regenerate DESIGN.md section 11.6 (seeded changes -> what they need -> which clause caught them) from seeded/*/meta.json."""
import glob, json, os, re
V = os.path.dirname(os.path.dirname(os.path.abspath(__file__)))
rows = []
for f in sorted(glob.glob(os.path.join(V, 'seeded', '*', 'meta.json'))):
    tag = f.split('/')[-2]
    m = json.load(open(f))
    c = m.get('confirmation', {})
    def clean(x, n):
        x = re.sub(r'\s+', ' ', str(x or '')).replace('|', '/')
        return x[:n] + ('...' if len(x) > n else '')
    files = ', '.join(os.path.basename(x) for x in (m.get('files') or m.get('files_touched') or []))
    change = clean(m.get('summary') or m.get('change') or m.get('description'), 260)
    needs = clean(m.get('needs_to_manifest') or m.get('needs') or m.get('trigger'), 260)
    if c.get('detected'):
        how = 'concrete replay' if c.get('concrete_replay') else 'no-failing-input-found'
        by = clean((c.get('caught_by') or [''])[0], 200)
        det = './check %s: %s; %s' % (c.get('check_id', tag[:3]), how, by)
    else:
        det = 'NOT DETECTED'
    ok = (c.get('demo_unchanged_rc') == 0 and c.get('demo_changed_rc') == 1 and c.get('stable_tests_pass'))
    rows.append('| %s | %s | %s | %s | %s | %s |' % (tag, files, change, needs, 'yes' if ok else 'NO', det))
hdr = ('### 11.6 Seeded changes and what caught them\n\n'
       'Four waves of mutation agents (given only a property text and a scratch worktree) produced the changes below; each was '
       'confirmed by `harness/seedtest.py` (demo exits 0 on the unchanged tree and 1 with the patch; the stable tests that touch '
       'the modules still pass, flaky ones re-run; then the patch is applied to /repo, `./check` is run and the patch is undone). '
       'Tags `Cxx_a/b` = wave 1, `Cxx_w2a/b` = wave 2, `Cxx_w3a/b` = wave 3, `Cxx_w4a` = wave 4 (six properties, one change each). "Confirmed" = demo 0/1 and tests pass. The last column is the check that '
       'reported the violation, whether it came with a concrete failing input, and the first failing clause.\n\n'
       '| Tag | File | Change | Needs to manifest | Confirmed | Caught by |\n|---|---|---|---|---|---|\n')
txt = hdr + '\n'.join(rows) + '\n'
p = os.path.join(V, 'DESIGN.md')
s = open(p).read()
a = s.find('### 11.6 Seeded changes and what caught them')
if a >= 0:
    b = s.find('\n### 11.7', a)
    s = s[:a] + txt + (s[b:] if b >= 0 else '')
else:
    s = s.rstrip() + '\n\n' + txt
open(p, 'w').write(s)
print(len(rows), 'rows;', sum('NOT DETECTED' in r for r in rows), 'not detected')
