#!/bin/bash
# full coqchk of the C01 property module incl. the Flocq/Interval estimator proof, on a frozen copy; may take hours
V=/verif; T=$V/work/coqchk_tree_c01
rm -rf $T; mkdir -p $T; rsync -a --exclude='.lock' $V/coq/ $T/; cd $T
start=$(date +%s)
timeout ${1:-9000} coqchk -silent -o -Q . Elfi Elfi.Properties.C01 > $V/work/coqchk_C01_full.out 2>&1
rc=$?
{ echo "commit $(git -C $V rev-parse --short HEAD), started $(date -u -d @$start +%H:%MZ): rc=$rc (0 = checked, 124 = timed out) after $(( $(date +%s)-start )) s"; grep -A2 "^\* Axioms" $V/work/coqchk_C01_full.out | head -3; } > $V/work/coqchk_C01_full.log
rm -rf $T
