"""Confirm a seeded change and run the property check against it.
usage: seedtest.py <property id> <variant dir (patch.diff, demo.py, meta.json)> [--tests] [--tag NAME] [--check-id Cyy]
(--tag: directory name under /verif/seeded; --check-id: run another property's check against the change, e.g. a C07 change
whose effect is a C13 clause)
1. scratch worktree of /repo HEAD: demo exits 0 clean, 1 with the patch; (optionally) the stable baseline tests still pass;
2. apply the patch to /repo, run ./check <id>, undo; 3. store everything under /verif/seeded/<id>_<variant>/."""
import json
import os
import shutil
import subprocess
import sys
import time

VERIF = os.path.dirname(os.path.dirname(os.path.abspath(__file__)))
pid, vdir = sys.argv[1], os.path.abspath(sys.argv[2])
run_tests = '--tests' in sys.argv
variant = os.path.basename(vdir.rstrip('/'))
tag = '%s_%s' % (pid, variant)
if '--tag' in sys.argv:
    tag = sys.argv[sys.argv.index('--tag') + 1]
check_id = sys.argv[sys.argv.index('--check-id') + 1] if '--check-id' in sys.argv else pid
phase = sys.argv[sys.argv.index('--phase') + 1] if '--phase' in sys.argv else 'ab'   # a: scratch worktree part, b: check against /repo
scratch = '/tmp/confirm_' + tag
env = dict(os.environ, PYTHONHASHSEED='0', MPLBACKEND='Agg', OMP_NUM_THREADS='1', OPENBLAS_NUM_THREADS='1', MKL_NUM_THREADS='1')


def sh(cmd, cwd=None, timeout=3600, extra_env=None):
    e = dict(env)
    if extra_env:
        e.update(extra_env)
    p = subprocess.run(cmd, shell=True, cwd=cwd, env=e, stdout=subprocess.PIPE, stderr=subprocess.STDOUT, text=True, timeout=timeout)
    return p.returncode, p.stdout


def stable_ids():
    b = json.load(open('/root/.vp/BASELINE.json'))
    ids = []
    for t in b['stable_pass']:
        mod, name = t.split('::', 1)
        if not mod.startswith('tests.'):
            continue
        parts = mod.split('.')
        # tests.unit.test_bo.Test_MaxVar -> tests/unit/test_bo.py::Test_MaxVar
        path = []
        cls = []
        for p in parts:
            (cls if (path and path[-1].startswith('test_')) else path).append(p)
        ids.append('/'.join(path) + '.py' + ''.join('::' + c for c in cls) + '::' + name)
    return ids


res = dict(property=pid, variant=variant)
dst = os.path.join(VERIF, 'seeded', tag)
if 'a' not in phase:
    try:
        res = json.load(open(os.path.join(dst, 'meta.json')))['confirmation']
    except Exception:
        pass


def part_a():
    sh('git -C /repo worktree remove --force %s' % scratch)
    shutil.rmtree(scratch, ignore_errors=True)
    rc, out = sh('git -C /repo worktree add -q --detach %s HEAD' % scratch)
    assert rc == 0, out
    try:
        wd = scratch + '_run'
        shutil.rmtree(wd, ignore_errors=True)
        os.makedirs(wd)
        shutil.copy(os.path.join(vdir, 'demo.py'), wd)
        rc0, o0 = sh('/venv/bin/python demo.py', cwd=wd, timeout=1800, extra_env={'PYTHONPATH': scratch})
        res['demo_unchanged_rc'] = rc0
        rc, out = sh('git apply %s' % os.path.join(vdir, 'patch.diff'), cwd=scratch)
        res['patch_applies'] = (rc == 0)
        if rc != 0:
            res['patch_error'] = out[-500:]
        rc1, o1 = sh('/venv/bin/python demo.py', cwd=wd, timeout=1800, extra_env={'PYTHONPATH': scratch})
        res['demo_changed_rc'] = rc1
        res['demo_changed_tail'] = o1[-600:]
        if run_tests:
            ids = stable_ids()
            if '--all-tests' not in sys.argv:
                # only the stable tests whose file mentions a touched module (the full stable set takes 10-35 min)
                import re
                touched = set(re.findall(r'^\+\+\+ b/(\S+)', open(os.path.join(vdir, 'patch.diff')).read(), re.M))
                keys = set()
                for t in touched:
                    base = os.path.basename(t)[:-3]
                    keys.add(base)
                    keys.add(t[:-3].replace('/', '.'))
                extra = {'samplers': ['Rejection', 'SMC', 'elfi.Rejection'], 'parameter_inference': ['Rejection', 'BOLFI', 'BayesianOptimization', 'SMC'],
                         'client': ['Rejection', 'BatchHandler', 'generate('], 'executor': ['generate('], 'compiler': ['generate('], 'loader': ['generate('],
                         'elfi_model': ['elfi.'], 'graphical_model': ['elfi.'], 'utils': ['elfi.'], 'store': ['Pool', 'store'],
                         'acquisition': ['acquisition', 'BOLFI', 'BayesianOptimization'], 'bolfi': ['BOLFI', 'BayesianOptimization'],
                         'gpy_regression': ['GPyRegression', 'BOLFI', 'BayesianOptimization'], 'posteriors': ['BOLFI', 'Posterior', 'romc'],
                         'mcmc': ['mcmc', 'BOLFI'], 'results': ['Sample', 'results'], 'extensions': ['ModelPrior', 'SMC', 'BOLFI'],
                         'augmenter': ['ModelPrior', 'augmenter'], 'tools': ['tools', 'vectorize'], 'romc': ['romc', 'ROMC'], 'bsl': ['bsl', 'BSL'],
                         'pdf_methods': ['pdf_methods', 'syn_likelihood'], 'post_processing': ['post_processing', 'adjust'],
                         'model_selection': ['compare_models']}
                for k in list(keys):
                    keys.update(extra.get(k, []))
                sel = []
                cache = {}
                for i in ids:
                    fpath = os.path.join(scratch, i.split('::')[0])
                    if fpath not in cache:
                        try:
                            cache[fpath] = open(fpath).read()
                        except OSError:
                            cache[fpath] = ''
                    if any(k in cache[fpath] for k in keys):
                        sel.append(i)
                res['stable_tests_selected'] = len(sel)
                ids = sel or ids[:5]
            t0 = time.time()

            def run_ids(idl):
                rc_, out_ = sh('/venv/bin/python -m pytest -q -p no:cacheprovider --timeout=900 -rf ' + ' '.join("'%s'" % i for i in idl) + ' 2>&1 | tail -40',
                               cwd=scratch, timeout=7200)
                import re as _re
                failed = _re.findall(r'^(?:FAILED|ERROR) (\S+)', out_, _re.M)
                ok_ = (' passed' in out_ and ' failed' not in out_ and ' error' not in out_.lower().replace('errors', 'error'))
                return ok_, failed, out_
            ok_t, failed, out = run_ids(ids)
            res['stable_tests_tail'] = out[-400:]
            reruns = 0
            # a test that fails is re-run alone (twice at most): tests with unseeded randomness (e.g.
            # test_utils.py::test_minimize_with_constraints) fail now and then on the unchanged tree too
            while not ok_t and failed and reruns < 2:
                reruns += 1
                res.setdefault('rerun_failed', []).append(failed)
                ok_t, failed, out2 = run_ids(failed)
                res['stable_tests_rerun_tail'] = out2[-300:]
            res['stable_tests_wall_s'] = round(time.time() - t0)
            res['stable_tests_pass'] = bool(ok_t)
        shutil.rmtree(wd, ignore_errors=True)
    finally:
        sh('git -C /repo worktree remove --force %s' % scratch)
        shutil.rmtree(scratch, ignore_errors=True)



if 'a' in phase:
    part_a()

def part_b():
    # run the property check against the change in /repo itself
    rc, out = sh('git -C /repo status --porcelain --untracked-files=no')
    assert out.strip() == '', 'repo not clean: ' + out
    rc, out = sh('git -C /repo apply %s' % os.path.join(vdir, 'patch.diff'))
    assert rc == 0, out
    try:
        t0 = time.time()
        rc, out = sh('VERIF_SEEDTEST=1 ./check %s' % check_id, cwd=VERIF, timeout=3600)
        res['check_id'] = check_id
        res['check_rc'] = rc
        res['check_wall_s'] = round(time.time() - t0)
        res['check_violation_lines'] = [l for l in out.split('\n') if l.startswith('VIOLATION')][:5]
        res['check_tail'] = out[-800:]
    finally:
        sh('git -C /repo checkout -- .')
        # the translated files were regenerated from the patched tree (or removed where a translator refused it):
        # regenerate them from the restored one, so that later --skip-proof development runs do not see a stale coq/Gen
        sh('bash setup.sh', cwd=VERIF, timeout=3600)
    res['detected'] = (res.get('check_rc') == 1 and bool(res['check_violation_lines']))
    # which clause caught it: kind + detail of the first replays
    caught = []
    for l in res['check_violation_lines'][:3]:
        try:
            rp = l.split('replay=')[1].split()[0]
            rj = json.load(open(rp))
            caught.append('%s: %s' % (rj.get('kind'), str(rj.get('detail') or rj.get('broken'))[:240]))
        except Exception as e:
            caught.append('replay unreadable: %s' % e)
    res['caught_by'] = caught
    res['concrete_replay'] = any('no-failing-input-found' not in l for l in res['check_violation_lines'])



if 'b' in phase:
    part_b()

dst = os.path.join(VERIF, 'seeded', tag)
os.makedirs(dst, exist_ok=True)
for fn in ('patch.diff', 'demo.py'):
    if os.path.abspath(os.path.join(vdir, fn)) != os.path.abspath(os.path.join(dst, fn)):
        shutil.copy(os.path.join(vdir, fn), dst)
meta = {}
try:
    meta = json.load(open(os.path.join(vdir, 'meta.json')))
except Exception as e:
    meta = {'meta_error': str(e)}
meta['confirmation'] = res
json.dump(meta, open(os.path.join(dst, 'meta.json'), 'w'), indent=1)
print(json.dumps({k: v for k, v in res.items() if k not in ('check_tail', 'demo_changed_tail', 'stable_tests_tail')}, indent=1))
