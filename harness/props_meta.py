"""Per-property manifest texts (level claimed, trusted base)."""
PENDING_REASON = 'check not built yet (work in progress in this session; see DESIGN.md section 10 for the order of work)'

COMMON_NOTE = ('Trusted: Coq 8.16.1 kernel + vm_compute (no native_compute), no axioms beyond those listed in the evidence file '
               '(Print Assumptions per theorem), the Python harness (generator, canonicaliser, Coq term printer), numpy/scipy/CPython '
               'as substrate of the implementation side, the numpy.Inf/NINF alias shim. The model is hand-written; the tie to /repo is '
               'the correspondence check run on every invocation. ')

META = {
 'C15': dict(
    text='Theorems (Properties/C15.v, closed under the global context): for every request history sharing one cache or none, every '
         'answer of the get_sub_seed model equals the idx-th value of the generator stream in first-appearance order (cache- and '
         'history-independent), distinct indices get distinct seeds, answers lie below high, an index is rejected iff >= high, plus '
         'liveness and soundness of the decidable spec. The model is compared on every run with the real get_sub_seed on generated '
         'histories (collisions forced with small high) and the proved-sound spec is evaluated on the implementation answers.',
    note=COMMON_NOTE + 'Modelled, not verified: numpy RandomState.randint as a stream (chunked draws = one draw, re-tested per case); '
         'termination of the real loop is probabilistic (theorem C15_live covers recorded streams with enough distinct values).'),
}
