"""Per-property manifest texts (level claimed, trusted base)."""
PENDING_REASON = 'check not built yet (work in progress in this session; see DESIGN.md section 10 for the order of work)'

COMMON_NOTE = ('Trusted: Coq 8.16.1 kernel + vm_compute (no native_compute), no axioms beyond those listed in the evidence file '
               '(Print Assumptions per theorem), the Python harness (generator, canonicaliser, Coq term printer), numpy/scipy/CPython '
               'as substrate of the implementation side, the numpy.Inf/NINF alias shim. The model is hand-written; the tie to /repo is '
               'the correspondence check run on every invocation. ')

META = {
 'C15': dict(
    text='Theorems (Properties/C15.v, closed under the global context): for every request history sharing one cache or none, every '
         'answer of the get_sub_seed model equals the idx-th value of the generator stream in first-appearance order (cache- and '
         'history-independent), distinct indices get distinct seeds, answers lie below high, an index is rejected iff >= high, plus '
         'liveness and soundness of the decidable spec. The model is compared on every run with the real get_sub_seed on generated '
         'histories (collisions forced with small high) and the proved-sound spec is evaluated on the implementation answers.',
    note=COMMON_NOTE + 'Modelled, not verified: numpy RandomState.randint as a stream (chunked draws = one draw, re-tested per case); '
         'termination of the real loop is probabilistic (theorem C15_live covers recorded streams with enough distinct values).'),
 'C03': dict(
    text='Theorems (Properties/C03.v, closed under the global context) over the executable model of the five compilers, four loaders and '
         'the executor (coq/Graph/Net.v): for every loaded net and every executor-cache state, a finished execution returns for each '
         'requested output its (unique) dataflow meaning Den, the call log is duplicate-free, contains only nodes that carried an '
         'operation (supplied/constant nodes never run) and only nodes the needed outputs depend on; the execution loop invariant for '
         'any duplicate-free order; OutputCompiler gives every node exactly one of output/operation; runtime edges (batch_size, meta, '
         'random_state) go to exactly the declaring nodes; an accepted compilation has no stochastic source node among the ancestors of '
         'observed data; supplied values replace operations. The whole pipeline model (compile, load, execute, incl. the name-sorted DFS '
         'order) is compared on every run with ElfiModel.generate on random graphs built through the real node classes with recording '
         'operations (outputs and call order must be identical), and the user-level denotation of coq/Graph/Denote.v (written directly '
         'over the source net, no compilation) is evaluated as the decidable spec on the implementation outputs, together with the '
         'exactly-once/needed-only call multiset and the rejection rules.',
    note=COMMON_NOTE + 'Partial: the composition "Den of compile(load(source)) = user-level den of the source" for the observed-twin '
         'construction is validated by the correspondence check only (theorems cover the executor, the runtime edges, the rejection '
         'check and the loaders piecewise). Modelled, not verified: networkx DiGraph as insertion-ordered adjacency lists, '
         'nx.ancestors as reachability (soundness proved), recording operations stand for arbitrary callables. One known finding '
         '(unobserved stochastic observable twin) is listed in KNOWN_FINDINGS.txt.'),
 'C02': dict(
    text='Theorems (Properties/C02.v, closed under the global context): the fixed execution order (name-sorted DFS, modelled as coded) '
         'is invariant under every permutation of node and edge insertion order; sorted(names) is canonical; with a consistent executor '
         'cache an execution returns what a fresh context returns, and for every history of pairwise coherent loaded nets sharing one '
         'cache each execution equals the fresh-context execution (history independence); the call log is the scheduled order '
         'restricted to operation nodes and respects dependencies (a parent had a value or ran earlier) - so all stochastic operations '
         'of a batch are handed the single batch generator in one fixed, dependency-respecting order; the sub-seed of batch i depends '
         'only on (seed, i) for every cache history (C15). Correspondence on every run: the pipeline model reproduces outputs and call '
         'order of ElfiModel.generate on random graphs built in two insertion orders; python-side bit-identity (tobytes) of numeric twins '
         'across repeats, global numpy state changes, unrelated computations in between, insertion orders, BatchHandler histories on one '
         'context vs fresh contexts, native vs multiprocessing client, seeded Rejection; draws checked against RandomState(sub_seed spec).',
    note=COMMON_NOTE + 'Partial: OS scheduling and pickling of nets to worker processes are runtime behaviour (transport modelled as '
         'identity, sampled with a 2-worker pool); the hypothesis "coherent" of the history theorem (equal needed tuples imply equal '
         'present outputs) is what the loaders provide and is validated by the correspondence runs, not proved from the loader model; '
         'numpy RandomState(seed) assumed a pure function of the seed.'),
 'C14': dict(
    text='Theorems (Properties/C14.v, closed under the global context) over the executable model of GraphicalModel/ElfiModel editing '
         '(coq/Graph/Edit.v: node creation with positional parents, add_edge, remove_node with recursive private-parent clean-up, '
         'update_node/become, parameter_names getter and setter, observed data, copy, save/load) on any number of live models: every '
         'model stays structurally consistent along every edit script (distinct names, edges and observed data only on existing nodes; '
         'decidable guards stated); removal never creates a cycle, removes the node and leaves other states untouched; a new node fed '
         'by existing nodes keeps the graph acyclic; after become the node carries exactly the replacement state and the replacement '
         'is gone; parameter_names = exactly the parameter nodes, sorted; the setter marks exactly the named nodes. Correspondence on '
         'every run: random edit scripts through the real API with dumps of every live model after every operation compared with the '
         'model, the property clauses (consistency incl. acyclicity and distinct positional indices, become keeps children / takes '
         'state, parents, observed data; removal takes private constants and observed data; no other live model changes = copy '
         'independence; copy and reloaded model equal their source) evaluated in Coq on the implementation dumps, and seeded generate '
         'on every live model at the end compared with the pipeline model of C03.',
    note=COMMON_NOTE + 'Partial: "become keeps the '
         'children" is checked on the implementation dumps on every run but not proved for the model (acyclicity after become under the guard is proved: C14_become_acyclic); pickle of callables '
         '(save/load) is runtime behaviour, sampled. Known finding: become onto a descendant leaves a cycle (KNOWN_FINDINGS.txt); the '
         'deprecated explicit add_edge producing duplicate positional indices or cycles is outside the property statement and skipped.'),
 'C08': dict(
    text='Theorems (Properties/C08.v, closed under the global context) over the model of augmenter.add_pdf_nodes and '
         'ModelPrior._evaluate_pdf on the graph calculus (coq/Graph/Prior.v): for every model and every duplicate-free list of requested '
         'parameters, augmentation adds exactly one density node per requested parameter whose positional arguments are the parameter '
         'followed by its own positional parents in order, a node created with positional parents receives exactly those in that order '
         '(column i feeds factor i), user nodes and their parents are untouched (non-requested parameters contribute nothing); '
         'functools.reduce(mul) is the product of the factors; the joint is zero iff some factor is zero, positive if all are, and '
         'independent of the order of the request; the log joint is -inf iff some term is; the central-difference stencil is exact on '
         'quadratics for every non-zero step. Correspondence on every run: the real add_pdf_nodes result (introspected) and the symbolic '
         'value returned by ModelPrior._evaluate_pdf/logpdf on random hierarchical models with recording distributions equal the model '
         'and the product/sum specification; numeric: pdf/logpdf/rvs/gradient_logpdf on scipy priors vs scipy evaluated directly at '
         'points inside/outside/on the boundary of the support, scalar/vector/matrix shapes, zero and -inf patterns, stencil identity.',
    note=COMMON_NOTE + 'Partial: the composition of the structure theorem with the executor theorem of C03 (value of the joint node = '
         'reduce of the density nodes values) is validated by the correspondence check, not proved end to end; "gradient agrees with '
         'the derivative" beyond the stencil identity and exactness on quadratics is numerical analysis (sampled); scipy densities and '
         'samplers are oracles ("draws have positive density" is sampled).'),
 'C01': dict(
    text='Theorems (Properties/C01.v) over the executable model of Rejection (coq/Sched/Reject.v: n+b row buffer, acceptance filter, '
         'tail overwrite, stable lexsort by (distance, unfilled), state meta, batch objective incl. the binary64 estimator in '
         'PrimFloat): an invariant holds after every history of consumed batches, from which the returned first n rows are ascending, '
         'every returned row holding a draw is an accepted consumed draw carried as a whole row (with multiplicity), every accepted '
         'draw left out is no better than any returned row, rows that are no draw appear only if fewer than n were accepted, returned '
         'draws are <= the threshold when one is given, and with a simulation budget exactly the objective number of batches is '
         'consumed; the sort is a sorted permutation; the float estimator never stops with too few acceptable draws (finite domain '
         'n<=12, b<=6, k<=16 by vm_compute, bound stated). Correspondence on every run: real Rejection.sample with an OutputPool as the '
         'independent record of every consumed draw, all three objective forms, ties and infinite discrepancies forced, scripted '
         'client with max_parallel 1-4: returned rows (discrepancy and row code), threshold, n_sim, n_batches must equal the model '
         'bit for bit, and the decidable statement of the property is evaluated on the implementation result.',
    note=COMMON_NOTE + 'PrimFloat primitives (kernel) appear in Print Assumptions of theorems that mention the estimator. Partial: the '
         'adaptive-distance path (_update_distances) is covered by the C12 check, not by this model; the estimator theorem is for the '
         'stated finite domain only (beyond it the correspondence speaks); numpy lexsort assumed stable.'),
 'C04': dict(
    text='Theorems (Properties/C04.v) over the executable model of BatchHandler + ParameterInference.iterate/_allow_submit/finished/'
         'infer with an explicit readiness oracle (coq/Sched/Sched.v), for EVERY inference method whose supplied batch values are '
         'stable within a round, every oracle and every max_parallel_batches >= 1: the inference ends in exactly the state of the '
         'sequential run, nothing is pending at return, the scheduler never raises its own errors, one iteration is one sequential '
         'step, and the client-call trace is well formed (indices consumed 0,1,2,... exactly once, always from the oldest outstanding '
         'task, at most max_parallel outstanding, cancelled tasks never read); instance theorem for the rejection sampler. '
         'Correspondence on every run: seeded Rejection (3 objective forms) and multi-round SMC under a scripted ClientBase (random '
         'is_ready answers, execution at submit / get_result / shuffled), traces by batch index checked with the proved trace '
         'predicate in Coq and, for rejection, equal to the model trace under the same oracle; outputs, thresholds, weights and n_sim '
         'equal to the sequential run bit for bit.',
    note=COMMON_NOTE + 'PrimFloat primitives appear through the rejection instance. Partial: real process pools exhibit few '
         'schedules (the theorem covers all schedules of the scheduler logic; the pools are runtime); the SMC instance is validated '
         'by the correspondence runs and the generic theorem hypothesis (proposals drawn per submission from the round stream, '
         'pending cancelled at round end), not instantiated in Coq; meta submission_index is schedule dependent by design.'),
 'C07': dict(
    text='Theorems (Properties/C07.v) over the executable model of the SMC round structure (coq/Sched/Smc.v: set_objective, update, '
         '_init_new_round, _extract_population, _update_objective over the scheduler and one rejection sampler per round): within a '
         'round the proposals handed to a batch index are submission-time independent, hence by C04 every schedule and every '
         'max_parallel give the sequential result; the reported n_batches / n_sim are the totals over all rounds; every returned '
         'population is the extracted result of a rejection round run with that round threshold (so all C01 theorems apply): every '
         'particle discrepancy is <= the threshold in force for its round, rows ascending, at most n_samples rows. Correspondence on '
         'every run: real SMC.sample (threshold lists, quantile lists, continued sampling, max_parallel 1-3) with an OutputPool as '
         'the independent record; per population rows, threshold, n_sim, n_batches equal the model bit for bit (incl. the binary64 '
         'batch estimator); weights (1 for the first population, prior density / mixture density of the previous population with '
         'its weights and covariance), covariance = 2 x weighted sample variance, selected quantile thresholds and prior positivity '
         'are recomputed independently with scipy (relative tolerance 1e-8/1e-9).',
    note=COMMON_NOTE + 'PrimFloat primitives appear through the rejection model. Partial: the weight, covariance and quantile clauses '
         'are numeric comparisons against an independent recomputation (the formulas themselves are proved in C13: mixture density, '
         'weighted variance, weighted quantile); "exactly n particles, all simulated draws" rests on the rejection round stopping only '
         'with n acceptable draws (C01 estimator theorem on a finite domain + correspondence); scipy densities/samplers are oracles.'),
 'C05': dict(
    text='Theorems (Properties/C05.v, closed under the global context) over the model of OutputPool + PoolLoader + ComputationContext '
         '(coq/Store/Pool.v) on the graph calculus: supplying any nodes with values equal to their fresh values leaves the meaning of '
         'EVERY node unchanged (so results with a reused pool equal pool-free results, also after downstream nodes were replaced); a '
         'stored node the pool holds for the batch is never in the call log (for every executor-cache state); when the stored set is '
         'prefix closed for the execution order the stochastic operations that still run form a prefix of the full stochastic '
         'sequence, i.e. each gets the single batch generator in the state it has without the pool (decidable side condition, with '
         'the MA2-like store sets as positive and the two-independent-simulators case as negative example); the callback never '
         'overwrites a held batch, afterwards holds the consumed batch, and touches only stores present in the result; a context with '
         'another batch_size or seed is refused, exactly then; along a whole pool run (any batch indices, the pool filling and the shared output set growing) '
         'every batch returns the outputs and call log a fresh executor cache gives and the pool ends the same '
         '(C05_pool_run_executor_cache_transparent, with the coherence of all loaded nets of a handler derived from the loader model). Correspondence on every run: (a) symbolic - random graphs with '
         'recording operations, 2-3 consecutive BatchHandler runs over one persistent pool (fill, rerun, more batches, remove_store, '
         'replacing a downstream node): per-batch results, call logs and pool content equal the model; results equal the pool-free '
         'meaning; the call multiset equals the operations needed given the held values; (b) numeric - seeded Rejection with '
         'OutputPool and on-disk ArrayPool vs the pool-free run bit for bit (fill, reuse, larger budget, replaced summary, save + '
         'reopen), operation call counters, pool content vs fresh recomputation, refusal of another batch_size/seed.',
    note=COMMON_NOTE + 'Partial: symbolic values do not see the random stream, so stream transparency is the combinatorial theorem '
         'C05_generator_positions plus the numeric bit-identity runs; the composition "pool-held values of a seeded run equal the fresh '
         'values" is by C02 (purity in (seed, batch index)) and is validated numerically; the on-disk part relies on C06.'),
}
