"""Per-property manifest texts (level claimed, trusted base)."""
PENDING_REASON = 'check not built yet (work in progress in this session; see DESIGN.md section 10 for the order of work)'

COMMON_NOTE = ('Trusted: Coq 8.16.1 kernel + vm_compute (no native_compute), no axioms beyond those listed in the evidence file '
               '(Print Assumptions per theorem), the Python harness (generator, canonicaliser, Coq term printer), numpy/scipy/CPython '
               'as substrate of the implementation side, the numpy.Inf/NINF alias shim. The model is hand-written; the tie to /repo is '
               'the correspondence check run on every invocation. ')

META = {
 'C15': dict(
    text='Theorems (Properties/C15.v, closed under the global context): for every request history sharing one cache or none, every '
         'answer of the get_sub_seed model equals the idx-th value of the generator stream in first-appearance order (cache- and '
         'history-independent), distinct indices get distinct seeds, answers lie below high, an index is rejected iff >= high, plus '
         'liveness and soundness of the decidable spec. The model is compared on every run with the real get_sub_seed on generated '
         'histories (collisions forced with small high) and the proved-sound spec is evaluated on the implementation answers.',
    note=COMMON_NOTE + 'Modelled, not verified: numpy RandomState.randint as a stream (chunked draws = one draw, re-tested per case); '
         'termination of the real loop is probabilistic (theorem C15_live covers recorded streams with enough distinct values).'),
 'C03': dict(
    text='Theorems (Properties/C03.v, closed under the global context) over the executable model of the five compilers, four loaders and '
         'the executor (coq/Graph/Net.v). END TO END (C03_generate_is_dataflow): for every well-formed source net - any DAG, observed twins, '
         'observed data, runtime flags, supplied with_values, any requested nodes or twins - whatever generate returns through ObservedCompiler, '
         'the instruction compilers, the reduction to the ancestors of the outputs, the loaders and the executor is the user-level dataflow '
         'meaning den_name (coq/Graph/Denote.v, written directly over the source net) of the requested name; acyclicity, twin-name freshness '
         'and operation presence are derived from the success of the compilation, not assumed. Piecewise: for every loaded net and every executor-cache state, a finished execution returns for each '
         'requested output its (unique) dataflow meaning Den, the call log is duplicate-free, contains only nodes that carried an '
         'operation (supplied/constant nodes never run) and only nodes the needed outputs depend on; the execution loop invariant for '
         'any duplicate-free order; OutputCompiler gives every node exactly one of output/operation; runtime edges (batch_size, meta, '
         'random_state) go to exactly the declaring nodes; an accepted compilation has no stochastic source node among the ancestors of '
         'observed data; supplied values replace operations. The whole pipeline model (compile, load, execute, incl. the name-sorted DFS '
         'order) is compared on every run with ElfiModel.generate on random graphs built through the real node classes with recording '
         'operations (outputs and call order must be identical), and the user-level denotation of coq/Graph/Denote.v (written directly '
         'over the source net, no compilation) is evaluated as the decidable spec on the implementation outputs, together with the '
         'exactly-once/needed-only call multiset and the rejection rules.',
    note=COMMON_NOTE + 'C03_model_ok: for every well-formed source net and well-formed outputs the model\'s own generate satisfies the decidable property ok (values = '
         'den_name, exactly the requested names, no stochastic observed data, call log = needed_ops as duplicate-free node sets), so agreement of model and '
         'implementation alone already implies the property on the agreed cases; ok is still evaluated on the implementation output independently. Modelled, not verified: networkx DiGraph as insertion-ordered adjacency lists, '
         'nx.ancestors as reachability (soundness and completeness proved), recording operations stand for arbitrary callables. One known finding '
         '(unobserved stochastic observable twin) is listed in KNOWN_FINDINGS.txt.'),
 'C02': dict(
    text='Theorems (Properties/C02.v, closed under the global context): the fixed execution order (name-sorted DFS, modelled as coded) '
         'is invariant under every permutation of node and edge insertion order; sorted(names) is canonical; with a consistent executor '
         'cache an execution returns what a fresh context returns, and for every history of pairwise coherent loaded nets sharing one '
         'cache each execution equals the fresh-context execution (history independence); the call log is the scheduled order '
         'restricted to operation nodes and respects dependencies (a parent had a value or ran earlier) - so all stochastic operations '
         'of a batch are handed the single batch generator in one fixed, dependency-respecting order; the sub-seed of batch i depends '
         'only on (seed, i) for every cache history (C15). Correspondence on every run: the pipeline model reproduces outputs and call '
         'order of ElfiModel.generate on random graphs built in two insertion orders; python-side bit-identity (tobytes) of numeric twins '
         'across repeats, global numpy state changes, unrelated computations in between, insertion orders, BatchHandler histories on one '
         'context vs fresh contexts, native vs multiprocessing client, seeded Rejection; boundary seeds (0, 1, 2^31-1, 2^32-1); seeded Rejection and '
         '3-population SMC runs on the native client vs a scripted client keeping 2-5 batches in flight (scripted is_ready answers, lazy / eager / '
         'shuffled execution) bit for bit; draws checked against RandomState(sub_seed spec). The executor order cache is modelled with its key '
         '(requested outputs that still have an operation, set of loaded nodes) as repaired in /repo c7681b2.',
    note=COMMON_NOTE + 'Partial: OS scheduling and pickling of nets to worker processes are runtime behaviour (transport modelled as '
         'identity, sampled with a 2-worker pool); the hypothesis "coherent" of the history theorem is derived from the loader model for every '
         'pair of nets a handler can load (any pool batches, any store sets, any output sets: C05_loaded_nets_coherent); '
         'numpy RandomState(seed) assumed a pure function of the seed.'),
 'C14': dict(
    text='Theorems (Properties/C14.v, closed under the global context) over the executable model of GraphicalModel/ElfiModel editing '
         '(coq/Graph/Edit.v: node creation with positional parents, add_edge, remove_node with recursive private-parent clean-up, '
         'update_node/become, parameter_names getter and setter, observed data, copy, save/load) on any number of live models: every '
         'model stays structurally consistent along every edit script (distinct names, edges and observed data only on existing nodes; '
         'decidable guards stated); removal never creates a cycle, removes the node and leaves other states untouched; a new node fed '
         'by existing nodes keeps the graph acyclic; after become the node carries exactly the replacement state and the replacement '
         'is gone; parameter_names = exactly the parameter nodes, sorted; the setter marks exactly the named nodes. Correspondence on '
         'every run: random edit scripts through the real API with dumps of every live model after every operation compared with the '
         'model, the property clauses (consistency incl. acyclicity and distinct positional indices, become keeps children / takes '
         'state, parents, observed data; removal takes private constants and observed data; no other live model changes = copy '
         'independence; copy and reloaded model equal their source) evaluated in Coq on the implementation dumps, and seeded generate '
         'on every live model at the end compared with the pipeline model of C03.',
    note=COMMON_NOTE + 'Partial: "become keeps the '
         'children" is checked on the implementation dumps on every run but not proved for the model (acyclicity after become under the guard is proved: C14_become_acyclic); pickle of callables '
         '(save/load) is runtime behaviour, sampled. Known finding: become onto a descendant leaves a cycle (KNOWN_FINDINGS.txt); the '
         'deprecated explicit add_edge producing duplicate positional indices or cycles is outside the property statement and skipped.'),
 'C08': dict(
    text='Theorems (Properties/C08.v, closed under the global context) over the model of augmenter.add_pdf_nodes and '
         'ModelPrior._evaluate_pdf on the graph calculus (coq/Graph/Prior.v): for every model and every duplicate-free list of requested '
         'parameters, augmentation adds exactly one density node per requested parameter whose positional arguments are the parameter '
         'followed by its own positional parents in order, a node created with positional parents receives exactly those in that order '
         '(column i feeds factor i), user nodes and their parents are untouched (non-requested parameters contribute nothing); '
         'functools.reduce(mul) is the product of the factors; the joint is zero iff some factor is zero, positive if all are, and '
         'independent of the order of the request; the log joint is -inf iff some term is; the central-difference stencil is exact on '
         'quadratics for every non-zero step. Correspondence on every run: the real add_pdf_nodes result (introspected) and the symbolic '
         'value returned by ModelPrior._evaluate_pdf/logpdf on random hierarchical models with recording distributions equal the model '
         'and the product/sum specification; numeric: pdf/logpdf/rvs/gradient_logpdf on scipy priors vs scipy evaluated directly at '
         'points inside/outside/on the boundary of the support, scalar/vector/matrix shapes, zero and -inf patterns, stencil identity. '
         'Array inputs and histories (Proofs/C08_History.v): the model of pdf/logpdf on an array (reshape to rows of dim, column i feeds '
         'parameter i, val[0] for a 0-d input or a vector when dim > 1) answers a matrix with one value per row, row i evaluated at point '
         'i; one point given as one-row matrix, vector or scalar gets the same value with 1, 0, 0 axes; for every proper input of n '
         'points the answer has no axis (single point as scalar/vector) or one axis of length n; the model carries no state between calls '
         'or objects: a history corresponds iff every call in it, wherever it stands, got the answer the model gives to that call alone '
         'from the graph its object was built from (order and interleaving immaterial); the decidable statement on a call is sound. The '
         'density node carries the identity of the distribution object held by the parameter node (not its name), so a prior replaced '
         'with become(...) is visible in the term. Correspondence on every run additionally: scripts on ONE live model object (edits '
         'through the public API: become on priors/constants, added and removed priors; ModelPrior objects built before and after, '
         'several alive at once) with interleaved calls - fresh points, the previous bytes in another shape, exact repeats, other '
         'dtypes/layouts/containers, odd shapes, caller overwriting returned arrays - every answer (shape and per-row terms) compared in '
         'Coq with the model evaluated from the graph introspected at construction and with the product/sum specification, plus a shadow '
         'object on a freshly built equivalent model; numeric histories (pdf/logpdf/gradient_logpdf/rvs on one object, edits incl. '
         'far-away supports) against scipy on the edited specification, bit-identity with a never-used ModelPrior of a copy of the '
         'model, shapes demanded by the input form, positive density of draws.',
    note=COMMON_NOTE + 'The numeric history clauses (bit-identity with a fresh object, the caller\'s array not modified, comparison with '
         'scipy) are python-side; the shape/row/history clauses on recording distributions are evaluated in Coq. '
         'The numeric oracle is the joint as the property states it (0 / -inf as soon as some scipy conditional density is zero, else the '
         'product / sum); known finding zero-times-infinite-factor: at a point with a zero factor and a +inf factor the code gives nan '
         '(reported under that key only for exactly that shape; any other nan is a violation). '
         'C08_evaluate_is_joint_spec (with C03_generate_is_dataflow): for EVERY well-formed model and well-formed request, whenever the '
         'modelled ModelPrior._evaluate_pdf returns a value it is the reduce (product / sum of logs) of the conditional density factors '
         'pdf_p(x_p; values of the parents of p at x) - proved end to end through augmentation, compilation, loading and execution. '
         'Partial: "gradient agrees with '
         'the derivative" beyond the stencil identity and exactness on quadratics is numerical analysis (sampled); scipy densities and '
         'samplers are oracles ("draws have positive density" is sampled).'),
 'C01': dict(
    text='Theorems (Properties/C01.v) over the executable model of Rejection (coq/Sched/Reject.v: n+b row buffer, acceptance filter, '
         'tail overwrite, stable lexsort by (distance, unfilled), state meta, batch objective incl. the binary64 estimator in '
         'PrimFloat): an invariant holds after every history of consumed batches, from which the returned first n rows are ascending, '
         'every returned row holding a draw is an accepted consumed draw carried as a whole row (with multiplicity), every accepted '
         'draw left out is no better than any returned row, rows that are no draw appear only if fewer than n were accepted, returned '
         'draws are <= the threshold when one is given, and with a simulation budget exactly the objective number of batches is '
         'consumed; the sort is a sorted permutation; the float estimator never stops with too few acceptable draws (finite domain '
         'n<=12, b<=6, k<=16 by vm_compute, bound stated). Histories (several runs on ONE Rejection instance; set_objective is '
         'modelled as discarding whatever the instance held): every run of every history, from any prior instance state, equals the '
         'fresh run (C01_history_runs_are_fresh) and returns the best accepted draws among exactly the batches that run consumed, '
         'exactly n rows all holding draws once n were accepted, all <= the threshold for ANY threshold incl. 0, n_sim = n_batches * '
         'batch_size (C01_every_run_of_every_history_best). Correspondence on every run of the check: histories of 1-4 consecutive '
         'runs (sample with/without bar, infer, set_objective+iterate) on one real Rejection instance, each run with its own n_samples '
         'and objective (threshold incl. 0 / 0.0 / -0.0 / tiny / equal to and between attained discrepancies / +inf as python and '
         'numpy scalars, quantile, n_sim, default), gaussian and Poisson-count models with integer discrepancies (ties forced, exact 0 '
         'attainable) and +inf discrepancies on part of the parameter space (fewer than n finite draws), pool kept or emptied between '
         'runs, scripted client with max_parallel 1-4; the batches the client handed out in a run, read from an OutputPool, are the '
         'independent record of that run: returned rows (discrepancy and row code), threshold, n_sim, n_batches of every run must '
         'equal the model bit for bit (hagree), the decidable statement of the property is evaluated on every run (hok), and results '
         'of earlier runs must stay bit-identical after later runs.',
    note=COMMON_NOTE + 'PrimFloat primitives (kernel) appear in Print Assumptions of theorems that mention the estimator. Partial: the '
         'adaptive-distance path (_update_distances) is covered by the C12 check, not by this model; the estimator theorem is for the '
         'stated finite domain only (beyond it the correspondence speaks); numpy lexsort assumed stable; thresholds reach the model as '
         'floor(threshold), exact for the integer-or-inf discrepancies of the harness models (checked per draw); that set_objective '
         'really discards all earlier state is what the history correspondence samples, it is not proved about the Python code.'),
 'C04': dict(
    text='Theorems (Properties/C04.v) over the executable model of BatchHandler + ParameterInference.iterate/_allow_submit/finished/'
         'infer with an explicit readiness oracle (coq/Sched/Sched.v), for EVERY inference method whose supplied batch values are '
         'stable within a round, every oracle and every max_parallel_batches >= 1: the inference ends in exactly the state of the '
         'sequential run, nothing is pending at return, the scheduler never raises its own errors, one iteration is one sequential '
         'step, and the client-call trace is well formed (indices consumed 0,1,2,... exactly once, always from the oldest outstanding '
         'task, at most max_parallel outstanding, cancelled tasks never read); instance theorem for the rejection sampler. '
         'Correspondence on every run: seeded Rejection (3 objective forms) and multi-round SMC under a scripted ClientBase (random '
         'is_ready answers, execution at submit / get_result / shuffled), traces by batch index checked with the proved trace '
         'predicate in Coq and, for rejection, equal to the model trace under the same oracle; outputs, thresholds, weights and n_sim '
         'equal to the sequential run bit for bit.',
    note=COMMON_NOTE + 'PrimFloat primitives appear through the rejection instance. Partial: real process pools exhibit few '
         'schedules (the theorem covers all schedules of the scheduler logic; the pools are runtime); the SMC instance is validated '
         'by the correspondence runs and the generic theorem hypothesis (proposals drawn per submission from the round stream, '
         'pending cancelled at round end), not instantiated in Coq; meta submission_index is schedule dependent by design.'),
 'C07': dict(
    text='Theorems (Properties/C07.v) over the executable model of the SMC round structure (coq/Sched/Smc.v: set_objective, update, '
         '_init_new_round, _extract_population, _update_objective over the scheduler and one rejection sampler per round): within a '
         'round the proposals handed to a batch index are submission-time independent, hence by C04 every schedule and every '
         'max_parallel give the sequential result; the reported n_batches / n_sim are the totals over all rounds; every returned '
         'population is the extracted result of a rejection round run with that round threshold (so all C01 theorems apply): every '
         'particle discrepancy is <= the threshold in force for its round, rows ascending, at most n_samples rows. Correspondence on '
         'every run: real SMC.sample (threshold lists, quantile lists, continued sampling, max_parallel 1-3) with an OutputPool as '
         'the independent record; per population rows, threshold, n_sim, n_batches equal the model bit for bit (incl. the binary64 '
         'batch estimator); weights (1 for the first population, prior density / mixture density of the previous population with '
         'its weights and covariance), covariance = 2 x weighted sample variance, selected quantile thresholds and prior positivity '
         'are recomputed independently with scipy (relative tolerance 1e-8/1e-9).',
    note=COMMON_NOTE + 'PrimFloat primitives appear through the rejection model. Partial: the weight, covariance and quantile clauses '
         'are numeric comparisons against an independent recomputation (the formulas themselves are proved in C13: mixture density, '
         'weighted variance, weighted quantile); "exactly n particles, all simulated draws" rests on the rejection round stopping only '
         'with n acceptable draws (C01 estimator theorem on a finite domain + correspondence); scipy densities/samplers are oracles.'),
 'C05': dict(
    text='Theorems (Properties/C05.v, closed under the global context) over the model of OutputPool + PoolLoader + ComputationContext '
         '(coq/Store/Pool.v) on the graph calculus: supplying any nodes with values equal to their fresh values leaves the meaning of '
         'EVERY node unchanged (so results with a reused pool equal pool-free results, also after downstream nodes were replaced); a '
         'stored node the pool holds for the batch is never in the call log (for every executor-cache state); when the stored set is '
         'prefix closed for the execution order the stochastic operations that still run form a prefix of the full stochastic '
         'sequence, i.e. each gets the single batch generator in the state it has without the pool (decidable side condition, with '
         'the MA2-like store sets as positive and the two-independent-simulators case as negative example); the callback never '
         'overwrites a held batch, afterwards holds the consumed batch, and touches only stores present in the result; a context with '
         'another batch_size or seed is refused, exactly then; along a whole pool run (any batch indices, the pool filling and the shared output set growing) '
         'every batch returns the outputs and call log a fresh executor cache gives and the pool ends the same '
         '(C05_pool_run_executor_cache_transparent, with the coherence of all loaded nets of a handler derived from the loader model); '
         'histories of runs on ONE BatchHandler + ComputationContext (the same inference object sampled again: reset() between the runs, '
         'any batch indices, stores removed in between; the only cross-run state is the net\'s grown output set, the executor cache and '
         'the pool): no batch of any run has a stored node the pool held for it in its call log (C05_history_held_store_never_runs, '
         'C05_history_from_new_inference_object), and without removals every batch returns what fresh executor caches return '
         '(C05_same_handler_history_transparent). Correspondence on every run: (a) symbolic - random graphs with '
         'recording operations, 2-4 consecutive runs over one persistent pool, each on a new inference object, on a new handler over '
         'the previous context, or on the SAME handler + context after reset() (fill, rerun, more/fewer batches, remove_store, '
         'replacing a downstream node): per-batch results, call logs and pool content equal the model; results equal the pool-free '
         'meaning; the call multiset equals the operations needed given the held values and the output set the handler has grown; '
         '(b) numeric - seeded Rejection with OutputPool and on-disk ArrayPool, simulator/summary batches of several dtypes and memory '
         'layouts (C, Fortran, permuted axes, strided, negative strides, 2-D/3-D), vs the pool-free run bit for bit: fill, then a history '
         'of sample() / set_objective+iterate calls on the same, the first and new Rejection objects with equal, larger and smaller '
         'budgets, replaced summary, save + close + open; per call the stored operations ran exactly for the batches the pool lacked; '
         'pool content (values, dtype, shape) vs fresh recomputation after the fill, after the history and after reopening; refusal '
         'of another batch_size/seed; (c) store - OutputPool/ArrayPool add_batch/get_batch round trips of arrays of ten dtypes and all '
         'these layouts (1-D to 3-D): read back in the same process, after flush, after close + open and after appending to the '
         'reopened pool; a held batch is never overwritten, the caller\'s array is not altered.',
    note=COMMON_NOTE + 'Partial: symbolic values do not see the random stream, so stream transparency is the combinatorial theorem '
         'C05_generator_positions plus the numeric bit-identity runs; the composition "pool-held values of a seeded run equal the fresh '
         'values" is by C02 (purity in (seed, batch index)) and is validated numerically; the on-disk part relies on C06, memory layouts '
         'and dtypes of stored batches have no Coq counterpart (python-side bit comparisons only); call counters and bit-identity of '
         'runs are python-side clauses (stored-batch layout round trips do have a Coq counterpart: Store/Layout.v). The defect found here '
         '(stale executor order after pool.remove_store between two runs on one ComputationContext, KeyError) was repaired in /repo '
         '(c7681b2: order cache keyed on the needed outputs and the set of loaded nodes); the model has the same key, and '
         'C05_history_with_removals_transparent / C05_rerun_after_pool_change cover histories with store removals and arbitrary pool '
         'changes; C05_generate_with_pool_is_pool_free / _equals_fresh state reuse end to end at the level of the user model (with '
         'C03_generate_is_dataflow): with a pool whose entries equal the pool-free meaning of their nodes, generate returns the '
         'pool-free meaning of every requested node, for every well-formed graph, stored set and output set.'),
}


# ---- later additions (appended to the entries above at import time) ----
def _extend(pid, text_extra='', note_replace=()):
    m = META[pid]
    m['text'] = m['text'] + text_extra
    for old, new in note_replace:
        assert old in m['note'], (pid, old[:40])
        m['note'] = m['note'].replace(old, new)


_extend('C01',
        ' C01_estimator_safe_unbounded: the binary64 batch estimator of the threshold form never lets a run stop before n_samples '
        'acceptable draws and asks for at most one batch too many, for ALL n and consumed draws up to 2^40 (error analysis of the four '
        'float operations through the Flocq bridge; depends on the FloatAxioms specifications and the classical real-number axioms, '
        'listed in the evidence).',
        [('the estimator theorem is for the stated finite domain only (beyond it the correspondence speaks)',
          'the estimator theorem covers sizes up to 2^40 (C01_estimator_safe_unbounded; the finite-domain sweep is kept as a second, '
          'axiom-free statement)')])
_extend('C02',
        ' END TO END (C02_generate_insertion_independent, composing C03_generate_is_dataflow and C03_model_log_exact): two builds of one '
        'well-formed model that differ only in the order in which nodes, edges and observed data were inserted return the same values and '
        'the same call log from generate; C02_model_ok: the model\'s own pair of results passes the decidable determinism predicate.')
_extend('C02',
        ' HISTORIES ON ONE MODEL OBJECT (C02_generate_history_independent, C02_model_ok with a history, C02_ok_sound): the model\'s generate is a '
        'function of the CURRENT source net, the outputs and the supplied values only, so for every history of generate calls (any outputs, seeds) '
        'and edits of one object (become, observed data, flags, parameters, added / removed nodes and edges; no hypothesis relates consecutive nets) each call '
        'returns the values and the call order of a freshly built model with the same nodes, edges and observed data in any insertion order - the end-to-end '
        'theorem applied to the current net of the step. Correspondence: on every case a 5-11 step history of generate calls and public-API edits '
        '(incl. edits that keep the node and edge counts) runs on one recording model and on its numeric twin; every generate call is reproduced by the model from '
        'the introspected current graph alone (step_agree) and compared with the same call on a freshly built object holding that graph (step_ok in Coq for values and call '
        'order; draws and tobytes python-side).')
_extend('C14',
        ' C14_become_keeps_children / _takes_parents / _others_untouched / _observed: the exact edge, node and observed-data '
        'characterisation of become (update_node) incl. the recursive private-parent clean-up, for every model with simple edges (an '
        'invariant of every edit script: C14_reachable_simple); the literal clauses fail only at self-loops (refuted by examples, '
        'unreachable under the acyclicity guard).',
        [('Partial: "become keeps the children" is checked on the implementation dumps on every run but not proved for the model '
          '(acyclicity after become under the guard is proved: C14_become_acyclic); pickle', 'Partial: pickle')])
_extend('C08',
        ' gradient_logpdf on array inputs (Proofs/C08_Gradient.v, binary64 model of gradient_logpdf + numgrad in PrimFloat over an '
        'arbitrary log density): C08_gradient_matrix_rows - the gradient of a matrix is, row by row, the numgrad stencil of that row '
        'alone, for every stepsize form and any number of rows; C08_gradient_row_local - the gradient row of a point depends on the log '
        'density only through the point\'s own 3*dim stencil points (neither values nor the "-inf => zero gradient" rule of one row reach '
        'another row); C08_gradient_row_alone - row i of the matrix answer is the answer to point i alone; '
        'C08_gradient_single_point_forms / C08_gradient_answer_shape - one-row matrix, vector, scalar give the same row, shapes (dim,) / '
        '(n,dim); C08_gradient_ok_sound with C08_gradient_row_ok_zero / _finite - what the decidable statement demands of each row. '
        'Correspondence on every run: matrices mixing rows inside, far in a tail, outside, on the end of and within a few steps of the end '
        'of the support of one conditional density (beta / norm / expon / uniform, hierarchical), default / scalar / per-dimension '
        'stepsizes, the matrix, each row alone and a permuted sub-matrix with another stepsize; the table of the object\'s own logpdf on '
        'each single row\'s stencil goes to Coq, where the model must reproduce every answer and every row must be zero iff ITS stencil '
        'reaches -inf, else equal the central difference of logpdf around that row (1e-6) and the analytic derivative of the sum of the '
        'conditional log densities at interior points (1e-3); python side: matrix rows bit-identical to the single-row answers.',
        [('Partial: "gradient agrees with '
          'the derivative" beyond the stencil identity and exactness on quadratics is numerical analysis (sampled)',
          'PrimFloat primitives (kernel) appear in Print Assumptions of the C08_gradient_* theorems. Partial: "gradient agrees with '
          'the derivative" beyond the stencil identity, row independence and exactness on quadratics is numerical analysis (sampled '
          'against hand-written analytic derivatives at interior points); the convention "zero gradient where the stencil reaches a '
          'point of zero density" (also for a point inside the support but closer to its end than the step) is the code\'s, taken as '
          'the reading of the property there')])
_extend('C03',
        ' DECLARED GRAPH (coq/Graph/Declared.v, wave 3): every case carries the (parent, child, parameter) triples the harness declared - '
        'constructor argument positions, explicit GraphicalModel.add_edge positions (0 attached after higher ones, sparse, continuing '
        'after constructor parents), named parameters and the implicit next-free-position form, attached in shuffled order, also to '
        'children created before their parents; the decidable check Declared.dok (C03_declared_ok_sound) demands that the parameters '
        'declared for one child are distinct, that the introspected source net carries exactly the declared triples, and that the '
        'implementation result satisfies Denote.ok for the DECLARED graph as well as for the net it holds; the model\'s own run passes '
        'it (C03_model_declared_ok) and every script of explicit add_edge calls on distinct pairs stores exactly the declared '
        'parameters (C03_explicit_edges_are_declared, over the model of GraphicalModel.add_edge/get_parents in Declared.v).',
        [('recording operations stand for arbitrary callables.',
          'recording operations stand for arbitrary callables; the declaration is what the harness itself issued (two parents on one '
          'position, reachable only through explicit add_edge with duplicate indices, are outside the property and never generated).')])
_extend('C07',
        ' NUMERIC CLAUSES IN COQ (wave 3; Sched/Smc.v npop / num_agree / num_ok, Proofs/C07_Weights.v): the case record carries, per '
        'population, the particles, the implementation weights and covariance and oracle tables (independent log-prior support flag, prior '
        'density, normal component densities under the previous population); num_ok states positive prior density of every particle, '
        'finite non-negative weights, first weights 1, later weight = prior / mixture of the previous population with ITS weights '
        '(purely relative 1e-8) and covariance = diag(2 x reliability-weights variance) (purely relative, conditioning-aware), and is '
        'sound (C07_num_ok_sound, C07_num_ok_cov_sound); the code-level formulas (C13 models gm_pdf / weighted_var) meet the statement and '
        'do not depend on the common factor of the weights (C07_weight_is_prior_over_mixture, C07_weight_scale_invariant, '
        'C07_cov_is_twice_weighted_variance, C07_cov_scale_invariant, C07_model_weight_ok, C07_model_cov_ok). The runs now include '
        'hierarchical priors whose child distribution is undefined once the parent leaves its support (U(0,2s) -> U(0,parent), '
        'U(0,2s) -> N(0,parent), Expon(s) -> U(0,parent)), parameters on scales 1e-6..1e6 and mixed scales in one model; every '
        'simulated draw of every round (OutputPool) must have positive prior density under an independent log-domain prior.',
        [('scipy densities/samplers are oracles.',
          'scipy densities/samplers are oracles; the prior density and the normal component densities enter the Coq statement as '
          'oracle tables computed by the harness (own formulas, standardised coordinates); a model whose parameter scales differ by more '
          'than ~1e4 makes scipy refuse the proposal covariance (LinAlgError, run does not finish): counted and skipped; so are runs in '
          'which GMDistribution.rvs reports 100 trials without a valid proposal (unit-covariance fallback on a small scale never '
          'terminates) and the covariance clause of a population whose weighted variance is not estimable in binary64 (allowance '
          '64 ulp x conditioning >= 1).')])
_extend('C14',
        ' WAVE 3: in-place writes to one node state through a reference are operations of the model and of the scripts (ESetFlag: '
        'model[n].uses_meta = b as elfi/examples/bdm.py does, model.get_state(n)["attr_dict"][key] = b, '
        'model.source_net.nodes[n]["attr_dict"][key] = b, node["attr_dict"][key] for _uses_meta / _uses_batch_size / _uses_observed, '
        '_parameter set / popped), on any live model and mostly right after a copy / reload, on the source or on the new model; '
        'C14_edits_preserve_structure and C14_reachable_simple cover them; C14_state_write / C14_state_write_flag: exactly the named flag '
        'of the named node changes. Copy independence is now also a theorem of the model (value semantics): C14_step_frame (one '
        'operation leaves every live model it is not addressed to unchanged, none is dropped), C14_copy_equals_source, C14_run_frame '
        '(along any script a live model nobody writes to keeps its value) and C14_copy_independent (after copy / save+load, whatever is '
        'done to the original the copy keeps the value of copy time, and vice versa); the correspondence compares the dumps of ALL live '
        'models after every operation with that model, so a state dict shared between a copy and its original shows at the first '
        'in-place write.')
_extend('C15',
        ' Wave 3: C15_first_appearance (the value at the raw position of a first appearance is the sub seed of the index "number of '
        'distinct values drawn before"), C15_nodup_prefix (on a duplicate-free prefix the sub seed of index i is raw draw i) and '
        'C15_raw_draw_wrong_at_collision (at the first repeated raw draw d the raw draw is NOT the sub seed of d, for every range). '
        'The correspondence now also covers (ii) large ranges 2**10..2**32 (2**31 weighted) with requests placed around the first '
        'three repeated draws of the master seed\'s stream (index ~1e4..2e5 for 2**31/2**32; cached consecutive from 0, jumping, '
        'decreasing, uncached, and through prepare_seed) and (iii) nearly exhausted medium ranges (high 50..6000, last 1..10 indices, '
        'thousands of loop passes per call; consecutive from 0 / jumping / decreasing / uncached / out of range). Every answer of every '
        'case is compared python-side with an independent numpy statement of the spec (value at the (idx+1)-th first appearance) and must '
        'be in range, distinct per index and rejected iff idx >= high; cases whose stream prefix fits a Coq literal (<= 5000 draws) also go '
        'through Seed.agree/Seed.ok, where the reference answers themselves are checked against Seed.spec (ref_ok, C15_ref_ok_sound).',
        [('termination of the real loop is probabilistic',
          'for indices/ranges whose stream prefix is too long for a Coq literal (2**31 with index >= ~5000, high > ~600 near exhaustion) the '
          'verdict on the implementation answers comes from the python/numpy reference of the spec, which is validated against Seed.spec '
          'on every case that does reach Coq but is itself trusted there; termination of the real loop is probabilistic')])


_extend('C02',
        ' C02_generate_success_insertion_independent / _same_: if generate succeeds on one build of a model it succeeds on every '
        'permuted build with the same values and call log (topological check, ObservedCompiler, stochastic check and executor success '
        'are all insertion-order independent).')
_extend('C05',
        ' C05_on_disk_store_is_pool_store (with the C06 refinement, flush, reopen and crash theorems): an on-disk ArrayPool store '
        'driven by the pool callbacks for batch indices 0, 1, 2, ... behaves as the in-memory store of the pool model - every write is '
        'an append, held batches are never overwritten, what the loader reads for batch k (also after flush / reopen / pickling) is the '
        'k-th added batch.',
        [('the on-disk part relies on C06, memory layouts', 'the on-disk part is linked to the C06 model by C05_on_disk_store_is_pool_store (one store at a time, contiguous batch indices), memory layouts')])


_extend('C14',
        ' C14_reachable_models_well_formed / C14_reachable_generate_is_dataflow: every model reachable by an edit script whose EAddNode '
        'states have one of the six constructor shapes and a non-reserved name, and whose observed data are set on observable nodes only, '
        'satisfies the well-formedness record wfsrc that the end-to-end theorems of C02/C03/C05/C08 assume - so generate on every '
        'script-reachable model returns the user-level meaning; both guards are shown necessary by refuted examples (a node named '
        '_batch_size; observed data written on a constant).')
_extend('C05',
        ' C05_on_disk_pool_get_batch / _add_batch / _run / _two_runs: the lift to whole pools - get_batch, add_batch and whole runs over '
        'batch indices 0,1,2,... (also with flush / reopen of all stores between two runs) commute with the abstraction from disk pools to '
        'the pool model; an index gap is where the two models differ (counterexample in the file).')


_extend('C03',
        ' COMPLETENESS (C03_generate_succeeds, C03_generate_total_and_sound, C03_compile_ok_iff, C03_stochastic_observed_refused): for a '
        'well-formed acyclic source net with fresh twin names and positional-only parents of args_to_tuple nodes, compilation succeeds iff no '
        'observed data would depend on a stochastic node (and then is refused with exactly that error), and generate succeeds and returns the '
        'dataflow meaning of every requested output; the executor is total on such nets (DFS sort total and topological). A spec observation '
        'proved by example (C03_tuple_named_parent_refused): a named parent of a Discrepancy (its args_to_tuple twin takes positional '
        'arguments only) is refused by the model although Denote.wf_case does not exclude it - such graphs are not generated.')


_extend('C03',
        ' REFUSALS (C03_model_refusal_ok, C03_model_ok_wf, C03_model_result_wf, C03_wf_case_split): the spec predicate wf_case was '
        'completed with the eight conditions the success theorem needs (distinct edge pairs, no reserved node names, observable nodes have no '
        '_output, observed keys distinct and observable, positional-only parents of args_to_tuple nodes, with_values keys distinct and not '
        'reserved; ok is monotone in this change: C03_ok_monotone, unchanged on accepted runs) and is now EXACTLY the conjunction of the '
        'hypotheses of the success theorem: whenever the model refuses, ok accepts the refusal (malformed or stochastic observed data), and '
        'for a well-formed case the model succeeds iff no observed data depends on a stochastic node and its result satisfies ok. The '
        'unconditional statement is false (two counterexamples outside wf_case: a value supplied under _batch_size; duplicate with_values keys).')


_extend('C14',
        ' LINK to C02 (C14_scripts_same_model_same_generate): two guarded API scripts that end in the same model up to the order in which '
        'nodes, edges and observed data were inserted give the same generate result (both succeed with equal values and call log, or both fail).')
_extend('C14',
        ' C14_params_distinct_reachable (+ _add_node_positional_params, _step_keeps_params_distinct, _scripts_same_model_same_generate_guarded): '
        'the hypothesis "the parameters on the incoming edges of every node are pairwise distinct" that the C02 insertion-order theorem assumes '
        'is itself an invariant of guarded scripts - the guard is syntactic on the step (distinct parents at add_node, a free parameter at '
        'add_edge, no self-loop at become, data only on an existing node), so the C02 link needs no semantic side condition on reachable models.')
_extend('C05',
        ' DURABILITY OF A WHOLE ON-DISK POOL (C05_on_disk_pool_flush_loads, _reopen_restores, _crash_prefix, _crash_prefix_batches, '
        '_crash_restart): after flush every store file loads to exactly the batches the run produced; closing and reopening every store restores '
        'the pool state; a kill at any point of a run leaves, for every store of a node of the net, a file that loads to a PREFIX batches 0..m-1 of '
        'what the run produced (at least what was there at the last flush), and the restarted handler continues as the pool model on that abstraction.')
_extend('C04',
        ' MEANING OF THE TRACE PREDICATE (C04_trace_ok_meaning, C04_trace_ok_iff_spec, C04_every_schedule_trace_meaning): the decidable '
        'checker trace_ok - which the theorems conclude and the correspondence applies to the real client-call trace - is EQUIVALENT to the '
        'declarative statement over the event list: the reads are indices 0..n-1 in order, at every prefix no more than max_parallel tasks are '
        'outstanding, submissions = reads + cancels at the end, a read of i after a cancel of i reads a task submitted after that cancel, every '
        'read / is_ready question concerns the oldest live task, only the newest live task is cancelled, a submission takes the next free index; '
        'hence every schedule of the model has these properties.')
_extend('C01',
        ' MEANING OF THE DECIDABLE PROPERTY PREDICATE (C01_ok_iff_spec, C01_ok_meaning, C01_ok_rows_best): the predicate ok that the '
        'correspondence evaluates on the real sampler\'s answer is EQUIVALENT to the declarative statement: exactly n_samples rows; discrepancies '
        'non-decreasing; every row holds a draw and the rows together with some rest are a permutation of the accepted consumed draws (whole rows, '
        'with multiplicity); nothing in the rest is better than the reported threshold, which is the last row\'s discrepancy (so no returned row is '
        'worse than a draw left out); n_sim = batch_size * n_batches, all batches of the table consumed, the budget forms consume exactly the '
        'objective\'s number of batches; with a threshold every row is within it.')
_extend('C14',
        ' MODEL_OK (C14_model_op_ok, C14_model_op_ok_reachable, _setflag, _remove, _become, C14_model_op_ok_needs_simple): the model\'s own edit '
        'step passes the decidable clause op_ok that the correspondence evaluates on the implementation\'s before/after dumps (remove: node, its data '
        'and orphaned private constants gone, nothing else; become: state, parents and data taken, children kept, replacement gone; flag write: '
        'nothing else changes) for every consistent model with one edge per ordered node pair - which every script-reachable model has; a consistent '
        'model with two parallel edges is the counterexample that shows the side condition necessary (DiGraph keeps one of them on re-adding).')
_extend('C01',
        ' MODEL_OK (C01_model_ok, C01_agree_ok): for every case whose table is exactly the consumed batches, with n_samples > 0 and at least '
        'n_samples accepted draws among them, the model\'s own answer passes the decidable predicate ok, hence agree c = true implies ok c = true: an '
        'implementation that agrees with the model has the property; both side conditions are shown necessary by computed counterexamples '
        '(n_samples = 0: the reported threshold is buffer row 0; fewer accepted than n_samples: unfilled rows are returned).')
_extend('C05',
        ' MODEL_OK (C05_store_agree_implies_store_ok, C05_model_store_ok, C05_model_case_agrees, C05_model_ok_partial): at the layout level agreement '
        'with the model implies the read-back clause, and the model\'s own stored bytes pass it for every list of in-bounds arrays of one shape '
        '(in-bounds shown necessary); at the pool level the model\'s own history of runs agrees with itself and its ok reduces to the run clause, '
        'which is established on concrete histories only (PARTIAL: the general statement needs the composition of the C03 log theorem with the '
        'pool loader\'s growth of outputs along a run; a SameHandler run with other outputs than its handler\'s - impossible in ELFI - is a '
        'computed counterexample that any general statement must exclude).')
_extend('C07',
        ' MODEL_OK (C07_ok_split, C07_model_sched_ok, C07_model_ok, C07_agree_ok, C07_agree_sched_ok, C07_enough_accepted_full): the populations of the '
        'model\'s own run pass the scheduling/population part of the decidable predicate ok whenever every round filled its n_samples rows (which '
        'follows from n_samples accepted draws in the round), the table is exactly the consumed batches and there is at least one round; hence an '
        'implementation answer that agrees with the model has it (the numeric weight/covariance clauses stay as the separate hypothesis num_ok); '
        'each side condition is shown necessary by a computed counterexample.')
_extend('C08',
        ' MODEL_OK (C08_model_ok, C08_agree_implies_ok, C08_model_ok_call, C08_agree_implies_ok_call, C08_agree_implies_ok_history, '
        'C08_model_ok_gradient, C08_model_row_ok): wherever the modelled evaluation succeeds, its own pdf / logpdf answer passes ok and ok_call for every '
        'request shape, so agreement with the model implies the property predicate at single-point, call and history level; the model\'s own '
        'finite-difference rows pass the gradient predicate where no central difference is nan (a zero stepsize on a finite stencil is the computed '
        'counterexample: 0/0, cleaned to 0, is refused by the predicate).')
_extend('C14',
        ' SCRIPT LEVEL (C14_model_steps_agree, C14_model_steps_ok, C14_model_script_ok_partial, C14_model_case_ok_strict_partial): the model\'s own record of '
        'a whole script (dumps of all live models and parameter_names after every step) agrees with itself and passes every clause of ok_steps - edited '
        'model as stated, all other live models unchanged, copy / save-load equal to the source, parameter_names - PARTIAL in that "every dump is '
        'consistent" (acyclic_b, nodup_params along the script) is a decidable hypothesis of the theorem, not derived.')
_extend('C14',
        ' SCRIPT LEVEL COMPLETED (C14_model_script_ok, C14_model_case_ok, C14_consistent_along_derived, C14_step_consistent, C14_reachable_consistent, '
        'C14_acyclic_b_iff, C14_consistent_b_sound / _complete): the decidable consistent_b is equivalent to the Prop-level invariants (closed, one edge '
        'per pair given uniq, distinct parameters, acyclic), the model\'s step preserves it outside the hazards, so the model\'s own record of ANY '
        'script without input hazards passes ok_steps and the whole case passes agree and ok; the input-hazard guard (a node among its own parents, a '
        'parent listed twice, observed data for a name that is no node) is shown necessary by three computed scripts (C14_input_hazard_necessary) - '
        'the second of them is the real-code finding repeated-positional-parent recorded under C03.')
