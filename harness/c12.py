"""C12 — Distance / AdaptiveDistance: correspondence with coq/Num/Distance.v and coq/Num/Welford.v.

Case kinds (all through the real classes of /repo):
  dist      elfi.Distance(metric, *parents, **kw).generate(M, with_values=...)   -> Distance.dcase
  kw        elfi.Distance(metric, parent, **kw): the keywords that reached cdist  -> Distance.kcase
  adaptive  a script of add_data / update_distance / init_adaptation_round / generate calls on one
            elfi.AdaptiveDistance node, state observed after every call          -> Welford.acase
  partition the same data set fed through every composition into batches         -> Welford.acase
  rejection real elfi.Rejection(...).sample with an AdaptiveDistance and an OutputPool recording the
            simulated summaries; replayed as a script with only the end state observed -> Welford.acase
  (adaptive / partition / sampler: the summaries are stored in a unit 2^e per column, e in -100..100, and in a storage
   dtype per summary and per add_data call - float64/float32/intN/uintN/bool; the Coq case carries the numbers only)
  sampler   real sampler rounds on a model with an AdaptiveDistance node whose simulator logs every row it
            produces: consecutive elfi.Rejection runs (n_sim / quantile / threshold objectives, through
            sample() or a manual set_objective/iterate/extract_result loop with the node's store observed
            after every batch) or one elfi.AdaptiveDistanceSMC run (iterate loop); replayed as the script
            OInit, OBatch(all logged rows of the batch, acceptance mask)..., OUpdate, OSorted, OGen per
            round                                                                       -> Welford.acase
"""
import itertools
from functools import partial

import numpy as np
from common import *

KEYS = ['p', 'w', 'V', 'VI']


# ---- json <-> numpy -----------------------------------------------------------------------------

def enc(a):
    a = np.asarray(a, dtype=float)
    return {'nd': int(a.ndim), 'v': a.tolist()}


def dec(d):
    """the numbers of an array description in its storage dtype ('dt'; binary64 when absent): the generator
    only puts values there that the dtype holds exactly"""
    return np.array(d['v'], dtype=d.get('dt', 'float64'))


def sub(d, a, b, dt=None):
    """rows a..b of an array description, optionally re-stored in another dtype that holds the same numbers"""
    out = {'nd': d['nd'], 'v': d['v'][a:b]}
    dt = dt or d.get('dt')
    if dt and dt != 'float64':
        out['dt'] = dt
    return out


INT_DTYPES = ['int8', 'int16', 'int32', 'int64', 'uint8', 'uint16', 'uint32', 'uint64']
EXACT = 2 ** 53          # 64-bit integers are generated within +-2^53: the numbers binary64 (the transport) holds exactly


def dtype_range(dt):
    if dt == 'bool':
        return 0, 1
    ii = np.iinfo(dt)
    return max(int(ii.min), -EXACT), min(int(ii.max), EXACT)


def holders(lo, hi):
    """storage dtypes (other than float32) that hold every integer of [lo, hi] exactly"""
    return [dt for dt in INT_DTYPES if dtype_range(dt)[0] <= lo and hi <= dtype_range(dt)[1]] + ['float64']


def unit_bucket(e):
    return 'unit:2^0' if e == 0 else 'unit:2^%s%d..' % ('-' if e < 0 else '+', 10 * (abs(e) // 10))


def stacked_dtype(batch):
    try:
        return np.column_stack([dec(x) for x in batch]).dtype
    except ValueError:
        return None


def single_precision(ops):
    """some adaptation round starts with a batch that column-stacks to a float32 array: the code then keeps
    the running mean, M2, scale and weights of that round in float32 (relative accuracy ~1e-7, not 1e-16)"""
    first = True
    for op in ops:
        if op[0] in ('add', 'batch'):
            if first and stacked_dtype(op[1]) in (np.dtype('float32'), np.dtype('float16')):
                return True
            first = False
        elif op[0] in ('update', 'init'):
            first = True
    return False


def carr(d):
    if d['nd'] == 0:
        return '(A0 %s)' % cq(d['v'])
    if d['nd'] == 1:
        return '(A1 %s)' % clist([cq(x) for x in d['v']])
    return '(A2 %s)' % clist([clist([cq(x) for x in r]) for r in d['v']])


def cvec(v):
    return clist([cq(x) for x in v])


def cout(o):
    """implementation output of a distance node -> option dout"""
    if o is None:
        return 'None'
    if o['nd'] == 1:
        return '(Some (D1 %s))' % cvec(o['v'])
    return '(Some (D2 %s))' % clist([cvec(r) for r in o['v']])


def finite(o):
    return o is None or bool(np.all(np.isfinite(np.array(o['v'], dtype=float))))


def obs_finite(obs):
    """all numbers in a list of script observations are finite"""
    for o in obs:
        for x in o[1:]:
            if isinstance(x, dict):
                if not finite(x):
                    return False
            elif isinstance(x, list):
                if not np.all(np.isfinite(np.array(x, dtype=float))):
                    return False
    return True


# ---- helpers ------------------------------------------------------------------------------------

def worst_conditioning(ops):
    """max over all intermediate states of a script of (column mean / column std)^2, computed from the
    case data only.  The code's batch update is, on the first batch of a round (old mean 0), the
    textbook sum x*(x - mean) form, whose binary64 relative error is about eps * (mean/std)^2: the
    fixed tolerance 1e-9 is only meaningful while this number stays far below 1e7."""
    worst = 0.0
    rows = None
    for op in ops:
        if op[0] in ('add', 'batch'):
            try:
                M = len(op[1][0]['v'])
                data = np.hstack([np.array(x['v'], dtype=float).reshape(M, -1) for x in op[1]])
            except ValueError:
                continue
            if rows is not None and rows.shape[1] != data.shape[1]:
                continue
            rows = data if rows is None else np.vstack([rows, data])
            var = rows.var(axis=0)
            mean = rows.mean(axis=0)
            for m_, v_ in zip(mean, var):
                if v_ > 0:
                    worst = max(worst, m_ * m_ / v_)
        elif op[0] in ('update', 'init'):
            rows = None
    return worst


ILL = 1e5


def has_degenerate_round(ops):
    """some adaptation round of a replayed sampler script has a column without variance (e.g. a round that
    ended after one simulated row): scale 0, infinite weights - outside the statement"""
    rows = []
    for op in list(ops) + [['init']]:
        if op[0] in ('add', 'batch'):
            M = len(op[1][0]['v'])
            rows.append(np.hstack([np.array(x['v'], dtype=float).reshape(M, -1) for x in op[1]]))
        elif op[0] in ('update', 'init'):
            if rows and op[0] == 'update' and bool(np.any(np.vstack(rows).var(axis=0) == 0)):
                return True
            rows = []
    return False

def _must_not_run(*a, **k):
    raise RuntimeError('parent operation must not run: values are supplied')


def build_parents(observed):
    """A fresh model with one observable parent per entry of `observed` (values always supplied)."""
    import elfi
    m = elfi.ElfiModel()
    t = elfi.Prior('uniform', 0, 1, model=m, name='t')
    parents = []
    for i, o in enumerate(observed):
        parents.append(elfi.Simulator(_must_not_run, t, observed=dec(o), name='s%d' % i))
    return m, parents


def call_cityblock_vec(X, Y):
    return np.abs(X - Y).sum(axis=1)


def call_euclid_col(X, Y):
    return np.sqrt(((X - Y) ** 2).sum(axis=1)).reshape(-1, 1)


def take_cols(lo, hi, scalar, cast, y):
    """summary operation of the sampler models: a pure function of the simulator output; `cast` =
    (integer dtype, multiplier, offset) stores the summary as rounded integers of that dtype"""
    z = y[:, lo].copy() if scalar else y[:, lo:hi].copy()
    if cast:
        dt, mult, offset = cast
        lo_, hi_ = dtype_range(dt)
        z = np.clip(np.rint(z * mult + offset), lo_, hi_).astype(dt)
    return z


def sampler_slices(case):
    out, c = [], 0
    casts = case.get('casts') or [None] * len(case['shapes'])
    for w, cast in zip(case['shapes'], casts):
        out.append((c, c + max(w, 1), w == 0, cast))
        c += max(w, 1)
    return out


def sampler_sim_rows(mu, noise, case):
    y = np.array(case['off']) + mu[:, None] * np.array(case['coef']) + noise * np.array(case['sd'])
    # the unit of every column: an exact power of two
    return y * np.array([2.0 ** e for e in case.get('unit_exp', [0] * len(case['sd']))])


def sampler_obs_row(case):
    return np.array([case['obs']], dtype=float) * np.array([2.0 ** e for e in case.get('unit_exp', [0] * len(case['sd']))])


def build_sampler_model(case, log):
    """uniform prior -> simulator (logs every batch it produces) -> 1-3 summaries (column slices) ->
    AdaptiveDistance"""
    import elfi
    W = len(case['sd'])
    m = elfi.ElfiModel()
    mu = elfi.Prior('uniform', 0, 4, model=m, name='mu')

    def sim(mu, batch_size=1, random_state=None):
        y = sampler_sim_rows(np.asarray(mu, dtype=float).reshape(-1), random_state.randn(batch_size, W), case)
        log.append(y.copy())
        return y
    Y = elfi.Simulator(sim, mu, observed=sampler_obs_row(case), name='Y')
    sums = []
    for i, (lo, hi, sc, cast) in enumerate(sampler_slices(case)):
        sums.append(elfi.Summary(partial(take_cols, lo, hi, sc, cast), Y, name='s%d' % i))
    ad = elfi.AdaptiveDistance(*sums, name='ad')
    return m, ad, [x.name for x in sums]


class C12(PropCheck):
    pid = 'C12'
    header = ('From Coq Require Import String.\nFrom Coq Require Import List QArith ZArith Bool.\n'
              'From Elfi Require Import Base.Harness Num.Distance Num.Welford.\nImport ListNotations.\n'
              'Open Scope Q_scope.\n')
    case_type = 'Welford.case'
    preds = (('Welford.c12_agree', 'agree'), ('Welford.c12_ok', 'ok'))
    chunk = 80
    rule = ('dist: 1-3 parents, scalar (1-d) and vector (2-d) summaries, batch 1..8, metrics euclidean(+w)/cityblock/'
            'chebyshev/minkowski(p=1..4,1.5,2.5,+w)/seuclidean(V)/callables, observed as 0-d/1-d/2-d; malformed: row or width '
            'mismatch, 2-row observed.  adaptive: scripts of add_data/update_distance/init_adaptation_round/generate, 1-3 '
            'rounds, batches of 1..5 rows; partition: every composition of a data set of <= 6 (quick) / 8 (thorough) rows; '
            'rejection: real Rejection.sample with AdaptiveDistance, batch sizes 1..7.  sampler: a model whose simulator '
            'logs every row (1-3 scalar/vector summaries, width 1..4); 1-3 consecutive elfi.Rejection runs on one node '
            '(objective n_sim / quantile / thresholds on any subset of the nested distances, batch sizes 1..10 changing '
            'between rounds, sample() or set_objective/iterate/extract_result with the store observed after every batch) '
            'or one AdaptiveDistanceSMC run (2-3 populations, batch sizes 1..8, quantile .34/.5/.75); replayed as '
            'OInit, OBatch(all logged rows, acceptance mask)*, OUpdate, OSorted, OGen per round.  storage of the adaptive '
            'summaries (adaptive / partition / sampler kinds): every column in a unit 2^e, e in -100..100 (about 1e-30..1e30, '
            'exact powers of two; observed values and probes in the same unit; columns of one node in different units), '
            'and every summary in a storage dtype float64 / float32 / int8..int64 / uint8..uint64 / bool (integers over the '
            'whole range of the dtype, its top part, a window around a random centre, or small; 64-bit ones within +-2^53), '
            'every add_data call in the home dtype or another dtype holding the same numbers (mixed across the batches of a '
            'round); the model gets the numeric values only; scripts with a float32 round are compared python-side at 1e-4; '
            'sampler summaries as rounded integers of int8..uint64.  non-trivial = dist case '
            'with >=2 columns after stacking or kwargs; adaptive case with >=2 batches in some round and an update followed '
            'by a generate; sampler case with >=2 batches in some round; distinct by full input')
    trusted = ('scipy.spatial.distance.minkowski(u, v, p, w) (pairwise function, not cdist) is the oracle for non-integer p only; '
               'all other metrics are specified exactly in Coq (power form d^p over Q)',
               'numpy column_stack / atleast_2d / concatenate / broadcasting are modelled by their documented meaning on nested lists',
               'tolerance: relative 1e-9 between binary64 results and exact rationals (squares compared for sqrt quantities); '
               'relative 1e-4 (python-side, binary64 numpy reference) for scripts in which a round starts with a float32 batch',
               'integer / bool / float32 arrays are handed to the code as numpy arrays of that dtype built from values the dtype '
               'holds exactly; the Coq case carries the numbers only')

    def __init__(self, seed, tier):
        super().__init__(seed, tier)
        self._part_ref = {}

    # ---- value generators -------------------------------------------------------------------------
    def val(self, style):
        r = self.rng
        if style == 'int':
            return float(r.randint(-6, 6))
        if style == 'dyadic':
            return r.randint(-64, 64) / 8.0
        if style == 'dec':
            return round(r.uniform(-5, 5), 3)
        return r.uniform(-5, 5)

    def colval(self, style, spec):
        """one value of a column.  spec: None (plain), (scale, shift) (binary64 column, any style),
        ('dy', scale, shift) (dyadic values k/8 * scale + shift with scale and shift small multiples of a
        power of two: exactly representable in float32 too), ('int', lo, hi) (an integer of [lo, hi])"""
        if spec is None:
            return self.val(style)
        if spec[0] == 'int':
            return float(self.rng.randint(spec[1], spec[2]))
        if spec[0] == 'dy':
            return self.val('dyadic') * spec[1] + spec[2]
        return self.val(style) * spec[0] + spec[1]

    def distinct_col(self, n, style, spec=None):
        """n values with at least two different ones when n >= 2 (non-degenerate variance)"""
        while True:
            v = [self.colval(style, spec) for _ in range(n)]
            if n < 2 or len(set(v)) >= 2:
                return v

    def matrix(self, M, w, style, scales=None):
        cols = [self.distinct_col(M, style, scales[j] if scales else None) for j in range(w)]
        return [[cols[j][i] for j in range(w)] for i in range(M)]

    def summaries_for(self, M, shapes, style, scales=None, dts=None):
        """shapes: list of widths; width 0 means a 1-d (scalar-per-row) summary; dts: storage dtype per summary"""
        out = []
        k = 0
        for i, w in enumerate(shapes):
            ww = max(w, 1)
            sc = scales[k:k + ww] if scales else None
            k += ww
            m = self.matrix(M, ww, style, sc)
            if w == 0:
                out.append({'nd': 1, 'v': [row[0] for row in m]})
            else:
                out.append({'nd': 2, 'v': m})
            if dts and dts[i] != 'float64':
                out[-1]['dt'] = dts[i]
        return out

    def observed_for(self, shapes, style, form=None, scales=None, dts=None):
        r = self.rng
        out = []
        k = 0
        for i, w in enumerate(shapes):
            ww = max(w, 1)
            sc = scales[k:k + ww] if scales else [None] * ww
            k += ww
            if w == 0:
                f = form or r.choice(['0d', '1d', '1d', '2d'])
                x = self.colval(style, sc[0])
                out.append({'0d': {'nd': 0, 'v': x}, '1d': {'nd': 1, 'v': [x]}, '2d': {'nd': 2, 'v': [[x]]}}[f])
            else:
                v = [self.colval(style, sc[j]) for j in range(w)]
                f = form or r.choice(['2d', '2d', '1d'])
                out.append({'nd': 2, 'v': [v]} if f != '1d' else {'nd': 1, 'v': v})
            if dts and dts[i] != 'float64':
                out[-1]['dt'] = dts[i]
        return out

    # ---- storage dtype and unit of the adaptive summaries ---------------------------------------------
    def int_spec(self, dt):
        """('int', lo, hi) within the range of dt: the whole range, its top part, a window around a random centre
        (half-width >= |centre|/40, so that mean/std stays far from the cancellation limit) or small values"""
        r = self.rng
        L, H = dtype_range(dt)
        if dt == 'bool':
            return ('int', 0, 1)
        how = r.choice(['full', 'high', 'high', 'mid', 'mid', 'small'])
        if how == 'full':
            lo, hi = L, H
        elif how == 'high':
            lo, hi = H - (H - L) // r.choice([4, 16]), H
        elif how == 'mid':
            c = r.randint(L // 2, H // 2)
            h = max(3, abs(c) // r.choice([2, 10, 40]))
            lo, hi = max(L, c - h), min(H, c + h)
        else:
            lo, hi = max(L, -6), min(H, 12)
        self.bump('adaptive:int_range=%s' % how)
        return ('int', lo, hi)

    def choose_storage(self, shapes, mode, allow_f32=True):
        """per summary a home dtype, per column a value spec; mode: plain / units / dtype / mixed.
        units: binary64 columns in the unit 2^e, e in -100..100 (about 1e-30 .. 1e30; float32 columns
        2^-40..2^40); dtype: at least one summary stored as float32 / intN / uintN / bool"""
        r = self.rng
        nonf64 = INT_DTYPES + ['bool'] + (['float32', 'float32'] if allow_f32 else [])
        dts = ['float64'] * len(shapes)
        if mode in ('dtype', 'mixed'):
            dts = [r.choice(nonf64 + ['float64'] * 3) for _ in shapes]
            if all(d == 'float64' for d in dts):
                dts[r.randrange(len(dts))] = r.choice(nonf64)
        scales = []
        for w, dt in zip(shapes, dts):
            for _ in range(max(w, 1)):
                e = 0
                if mode in ('units', 'mixed') and r.random() < 0.8:
                    e = r.choice([-100, -70, -55, -40, -20, 20, 40, 70, 100, r.randint(-100, 100)])
                if dt == 'float64':
                    u = 2.0 ** e
                    scales.append((r.choice([1.0, 1.0, 10.0, 0.1, 100.0]) * u, r.choice([0.0, 0.0, 3.0, -20.0]) * u))
                elif dt == 'float32':
                    e = max(-40, min(40, e))
                    u = 2.0 ** e
                    scales.append(('dy', r.choice([1.0, 4.0, 0.25]) * u, r.choice([0.0, 0.0, 3.0]) * u))
                else:
                    e = 0
                    scales.append(self.int_spec(dt))
                self.bump('adaptive:' + unit_bucket(e))
            self.bump('adaptive:dtype=' + dt)
        return dts, scales

    def batch_dtypes(self, shapes, dts, scales, p=0.25):
        """the storage dtype of every summary for ONE add_data call: the home dtype, or (probability p) another
        dtype that holds the same numbers (mixed dtypes across the batches of a round)"""
        r = self.rng
        out, k = [], 0
        for w, dt in zip(shapes, dts):
            ww = max(w, 1)
            alt = []
            if dt == 'float32':
                alt = ['float64']
            elif dt != 'float64':
                alt = [a for a in holders(min(s[1] for s in scales[k:k + ww]), max(s[2] for s in scales[k:k + ww])) if a != dt]
            k += ww
            if alt and r.random() < p:
                out.append(r.choice(alt))
                self.bump('adaptive:batch_stored_in_other_dtype')
            else:
                out.append(dt)
        return out

    # ---- generators --------------------------------------------------------------------------------
    def generate(self):
        q = self.tier == 'quick'
        main = list(self.gen_dist(260 if q else 3500))
        main += list(self.gen_kw(60 if q else 600))
        main += list(self.gen_adaptive(110 if q else 1500))
        main += list(self.gen_partition(3 if q else 10, 6 if q else 8))
        main += list(self.gen_rejection(14 if q else 150))
        samp = list(self.gen_sampler(26 if q else 150))
        main += list(self.gen_degenerate(6 if q else 40))
        # exact arithmetic on summaries in units 2^-100..2^100 / 53-bit integers is the expensive part of the Coq
        # evaluation and the adaptive scripts are generated in one block: shuffle, so that the case files
        # (consecutive chunks, evaluated in parallel) are balanced
        self.rng.shuffle(main)
        # the sampler cases are the heaviest Coq terms: spread them evenly over the stream so that the case
        # files (consecutive chunks, evaluated in parallel) are balanced
        step = max(1, len(main) // (len(samp) + 1))
        for i, c in enumerate(main):
            yield c
            if (i + 1) % step == 0 and samp:
                yield samp.pop(0)
        yield from samp

    def gen_dist(self, n):
        r = self.rng
        for _ in range(n):
            style = r.choice(['int', 'dyadic', 'dec', 'float', 'float'])
            M = r.choice([1, 1, 2, 3, 5, 8])
            shapes = [r.choice([0, 0, 1, 2, 3]) for _ in range(r.randint(1, 3))]
            W = sum(max(w, 1) for w in shapes)
            summ = self.summaries_for(M, shapes, style)
            obs = self.observed_for(shapes, style)
            metric = r.choice(['euclidean', 'euclidean', 'euclidean_w', 'cityblock', 'chebyshev', 'minkowski', 'minkowski',
                               'minkowski_frac', 'minkowski_w', 'seuclidean', 'call_vec', 'call_col'])
            kw = {}
            if metric in ('minkowski', 'minkowski_w'):
                kw['p'] = r.choice([1, 2, 3, 4])
            if metric == 'minkowski_frac':
                kw['p'] = r.choice([1.5, 2.5, 3.5])
            if metric in ('euclidean_w', 'minkowski_w'):
                kw['w'] = [r.choice([0.5, 1.0, 2.0, 0.25, round(r.uniform(0.1, 3), 2)]) for _ in range(W)]
            if metric == 'seuclidean':
                kw['V'] = [r.choice([0.5, 1.0, 2.0, 4.0, round(r.uniform(0.1, 3), 2)]) for _ in range(W)]
            bad = None
            if r.random() < 0.15:
                bad = r.choice(['rows', 'obs_width', 'obs_rows', 'kw_len'])
                if metric.startswith('call') and bad in ('obs_width', 'obs_rows', 'kw_len'):
                    bad = 'rows'           # numpy broadcasting inside a user callable is not ELFI's code
                if bad == 'rows':
                    if len(summ) < 2:
                        bad = None
                    else:
                        k = r.randrange(len(summ))
                        summ[k] = self.summaries_for(M + r.choice([1, 2]), [shapes[k]], style)[0]
                elif bad == 'obs_width':
                    k = r.randrange(len(obs))
                    obs[k] = {'nd': 2, 'v': [[self.val(style) for _ in range(max(shapes[k], 1) + 1)]]}
                elif bad == 'obs_rows':
                    obs = [{'nd': 2, 'v': [[self.val(style) for _ in range(max(w, 1))] for _ in range(2)]} for w in shapes]
                elif bad == 'kw_len':
                    if 'w' in kw or 'V' in kw:
                        key = 'w' if 'w' in kw else 'V'
                        kw[key] = kw[key] + [1.0]
                    else:
                        bad = None
            self.bump('dist:metric=' + metric)
            self.bump('dist:M=%d' % M)
            self.bump('dist:parents=%d' % len(shapes))
            self.bump('dist:malformed=%s' % bad)
            yield dict(kind='dist', metric=metric, kwargs=kw, summaries=summ, observed=obs, M=M, bad=bad)

    def gen_kw(self, n):
        r = self.rng
        for _ in range(n):
            metric = r.choice(['euclidean', 'minkowski', 'wminkowski', 'seuclidean', 'mahalanobis', 'cityblock', 'sqeuclidean'])
            keys = [k for k in KEYS if r.random() < 0.45]
            r.shuffle(keys)
            kw = {}
            for k in keys:
                if k == 'p':
                    kw[k] = [r.choice([1.0, 2.0, 3.0, 1.5])]
                elif k == 'VI':
                    kw[k] = [1.0, 0.5, 0.5, 2.0]
                else:
                    kw[k] = [r.choice([0.5, 1.0, 2.0]) for _ in range(2)]
            self.bump('kw:metric=' + metric)
            yield dict(kind='kw', metric=metric, kwargs=kw, order=keys, extra_name=r.random() < 0.5)

    def script_round(self, shapes, style, scales, nb_max=4, bs_max=5, dts=None):
        r = self.rng
        nb = r.randint(1, nb_max)
        sizes = [r.choice([1, 1, 2, 3, bs_max]) for _ in range(nb)]
        if sum(sizes) < 2:
            sizes.append(r.randint(1, 3))
        W = sum(max(w, 1) for w in shapes)
        # build the round's data column-wise so every column is non-degenerate, then split
        N = sum(sizes)
        full = self.summaries_for(N, shapes, style, scales, dts)
        ops = []
        a = 0
        for s in sizes:
            bd = self.batch_dtypes(shapes, dts, scales) if dts else [None] * len(full)
            ops.append(['add', [sub(d, a, a + s, dt) for d, dt in zip(full, bd)]])
            a += s
        return ops

    def gen_adaptive(self, n):
        r = self.rng
        for _ in range(n):
            style = r.choice(['int', 'dyadic', 'dec', 'float', 'float'])
            shapes = [r.choice([0, 0, 1, 2, 3]) for _ in range(r.randint(1, 3))]
            W = sum(max(w, 1) for w in shapes)
            mode = r.choice(['plain', 'plain', 'units', 'units', 'dtype', 'dtype', 'mixed'])
            dts, scales = self.choose_storage(shapes, mode)
            if mode == 'plain':
                obs = self.observed_for(shapes, style)         # as before: observed values of order one
            else:
                obs = self.observed_for(shapes, style, None, scales, dts)
            probe = self.summaries_for(r.choice([1, 2, 4]), shapes, style, scales, dts)
            ops = []
            rounds = r.randint(1, 3)
            bad = None
            if r.random() < 0.2 and 'float32' not in dts:
                bad = r.choice(['update_first', 'update_twice', 'init_mid', 'rows'])
            if bad == 'update_first':
                ops.append(['update'])
            if r.random() < 0.5:
                ops.append(['gen', probe])
            for k in range(rounds):
                rnd = self.script_round(shapes, style, scales, dts=dts)
                if bad == 'init_mid' and k == 0:
                    rnd = rnd + [['init']] + self.script_round(shapes, style, scales, dts=dts)
                if bad == 'rows' and k == 0 and len(shapes) >= 2:
                    b = [dict(x) for x in rnd[0][1]]
                    b[0] = self.summaries_for(len(b[0]['v']) + 1, [shapes[0]], style, scales[:max(shapes[0], 1)], dts[:1])[0]
                    rnd.insert(r.randrange(len(rnd) + 1), ['add', b])
                ops.extend(rnd)
                if r.random() < 0.3:
                    ops.append(['gen', probe])
                ops.append(['update'])
                if bad == 'update_twice' and k == 0:
                    ops.append(['update'])
                ops.append(['gen', probe])
                if r.random() < 0.4:
                    ops.append(['gen', self.summaries_for(r.choice([1, 3]), shapes, style, scales, dts)])
                if r.random() < 0.2:
                    ops.append(['init'])
            self.bump('adaptive:rounds=%d' % rounds)
            self.bump('adaptive:width=%d' % W)
            self.bump('adaptive:malformed=%s' % bad)
            self.bump('adaptive:mode=%s' % mode)
            yield dict(kind='adaptive', observed=obs, ops=ops, bad=bad)

    def gen_partition(self, n_sets, max_rows):
        r = self.rng
        self._part_ref = {}
        for ds in range(n_sets):
            style = ['dyadic', 'float', 'dec', 'int'][ds % 4]
            shapes = [[0], [0, 2], [3], [1, 0], [2, 2]][ds % 5]
            W = sum(max(w, 1) for w in shapes)
            # every data set has its own storage: in the unit 2^e per column / integer, bool dtypes (every batch of
            # every composition in the home dtype or another one holding the same numbers) / plain
            mode = ['units', 'dtype', 'plain', 'mixed'][ds % 4]
            if mode == 'plain':
                dts, scales = None, [(r.choice([1.0, 10.0, 0.1]), r.choice([0.0, 5.0])) for _ in range(W)]
                obs = self.observed_for(shapes, style)
            else:
                dts, scales = self.choose_storage(shapes, mode, allow_f32=False)
                obs = self.observed_for(shapes, style, None, scales, dts)
            for N in range(2, max_rows + 1):
                full = self.summaries_for(N, shapes, style, scales, dts)
                probe = [sub(d, 0, 2) for d in full]
                for cuts in itertools.product([0, 1], repeat=N - 1):
                    bounds = [0] + [i + 1 for i, c in enumerate(cuts) if c] + [N]
                    ops = []
                    for a, b in zip(bounds, bounds[1:]):
                        bd = self.batch_dtypes(shapes, dts, scales, 0.3) if dts else [None] * len(full)
                        ops.append(['add', [sub(d, a, b, dt) for d, dt in zip(full, bd)]])
                    ops += [['update'], ['gen', probe]]
                    self.bump('partition:mode=%s' % mode)
                    self.bump('partition:rows=%d' % N)
                    self.bump('partition:batches=%d' % (len(bounds) - 1))
                    yield dict(kind='adaptive', observed=obs, ops=ops, bad=None,
                               dataset='%d/%d/%s' % (ds, N, hashlib.sha1(json.dumps(full).encode()).hexdigest()[:8]))

    def gen_rejection(self, n):
        r = self.rng
        for _ in range(n):
            b = r.choice([1, 2, 3, 5, 7])
            nb = r.randint(2, 5)
            nsamp = r.randint(1, min(6, b * nb))
            rounds = r.choice([1, 1, 2])
            self.bump('rejection:batch_size=%d' % b)
            self.bump('rejection:rounds=%d' % rounds)
            yield dict(kind='rejection', batch_size=b, n_batches=nb, n_samples=nsamp, seed=r.randrange(10 ** 6),
                       rounds=rounds, extra_batches=r.randint(0, 2),
                       sd=[r.choice([1.0, 10.0, 0.1]) for _ in range(3)])

    def gen_sampler(self, n):
        """sampler rounds on a model whose simulator logs every row: the adaptation data of a round are ALL
        rows simulated in it, whatever the objective (n_sim / quantile / thresholds), batch size or mode"""
        r = self.rng
        for _ in range(n):
            driver = r.choice(['rejection', 'rejection', 'smc'])
            shapes = r.choice([[0], [0, 2], [3], [1, 0], [0, 0], [2, 0, 1]])
            W = sum(max(w, 1) for w in shapes)
            sd = [r.choice([1.0, 10.0, 0.1, 0.5]) for _ in range(W)]
            coef = [r.choice([1.0, 1.0, -1.0, 3.0, 0.0]) for _ in range(W)]
            off = [r.choice([0.0, 0.0, 2.0, -5.0]) for _ in range(W)]
            obs = [round(off[j] + 2 * coef[j] + r.uniform(-1, 1) * sd[j], 3) for j in range(W)]
            case = dict(kind='sampler', driver=driver, shapes=shapes, sd=sd, coef=coef, off=off, obs=obs,
                        seed=r.randrange(10 ** 6))
            # storage of the summaries the sampler hands to the node: the unit 2^e of every simulator column
            # and, per summary, an integer dtype (rounded multiples filling a fair part of the dtype's range)
            smode = r.choice(['plain', 'units', 'units', 'int', 'mixed'])
            if smode in ('units', 'mixed'):
                case['unit_exp'] = [r.choice([0, -100, -70, -55, -30, 30, 70, 100]) for _ in range(W)]
            if smode in ('int', 'mixed'):
                casts, c0 = [], 0
                for w in shapes:
                    dt = r.choice(INT_DTYPES + [None, None])
                    if dt is None:
                        casts.append(None)
                    else:
                        L, H = dtype_range(dt)
                        bits = int(np.log2(H + 1))
                        casts.append([dt, float(2 ** max(bits - 6, 0)), float((H + 1) // 2 if L == 0 else 0)])
                        for j in range(c0, c0 + max(w, 1)):
                            case['sd'][j] = max(case['sd'][j], 1.0)      # the rounded integers must vary
                            if 'unit_exp' in case:
                                case['unit_exp'][j] = 0
                    c0 += max(w, 1)
                    self.bump('sampler:summary_dtype=%s' % dt)
                case['casts'] = casts
            for e in case.get('unit_exp', []):
                self.bump('sampler:' + unit_bucket(e))
            self.bump('sampler:storage=%s' % smode)
            if driver == 'rejection':
                rounds = []
                for k in range(r.choice([1, 2, 2, 3])):
                    b = r.choice([1, 2, 3, 4, 7, 10])
                    ns = r.randint(1, 6)
                    obj = r.choice(['n_sim', 'quantile', 'threshold'] if k == 0 else
                                   ['n_sim', 'quantile', 'threshold', 'threshold', 'threshold'])
                    spec = dict(batch_size=b, n_samples=ns, objective=obj, mode=r.choice(['sample', 'iterate']))
                    if obj == 'n_sim':
                        spec['n_sim'] = max(ns, 2, b * r.randint(1, 4) - r.choice([0, 0, 1]))
                    elif obj == 'quantile':
                        spec['quantile'] = r.choice([0.25, 0.5, 0.99])
                    else:
                        if b == 1:
                            spec['n_samples'] = max(ns, 2)      # a round of one simulated row has no variance
                        spec['q'] = r.choice([0.3, 0.5, 0.8])
                        # which of the k+1 nested distances get a finite threshold (at least one)
                        finite_ = [r.random() < 0.4 for _ in range(k + 1)]
                        finite_[r.choice([k, k, r.randrange(k + 1)])] = True
                        spec['finite'] = finite_
                    rounds.append(spec)
                    self.bump('sampler:rejection:objective=%s' % obj)
                    self.bump('sampler:rejection:batch_size=%d' % b)
                    self.bump('sampler:rejection:mode=%s' % spec['mode'])
                case['rounds'] = rounds
                self.bump('sampler:rejection:rounds=%d' % len(rounds))
            else:
                case['n_samples'] = r.randint(2, 5)
                case['rounds'] = r.choice([2, 2, 3])
                case['quantile'] = r.choice([0.5, 0.34, 0.75])
                # a first batch much larger than n_samples/quantile makes the population the best few of many
                # rows and the later thresholds very tight (hundreds of simulations per round): keep
                # batch_size <= ceil(n_samples / quantile)
                need = -(-case['n_samples'] * 100 // int(case['quantile'] * 100))
                case['batch_size'] = r.choice([b for b in [1, 2, 3, 5, 8] if b <= need])
                self.bump('sampler:smc:batch_size=%d' % case['batch_size'])
                self.bump('sampler:smc:rounds=%d' % case['rounds'])
            self.bump('sampler:driver=%s' % driver)
            self.bump('sampler:width=%d' % W)
            yield case

    def gen_degenerate(self, n):
        """rounds with a constant column (scale 0): outside the statement; only 'does not raise' is recorded"""
        r = self.rng
        for _ in range(n):
            obs = [{'nd': 1, 'v': [0.5]}]
            ops = [['add', [{'nd': 1, 'v': [1.25] * r.randint(1, 3)}]], ['update'], ['gen', [{'nd': 1, 'v': [1.0, 2.0]}]]]
            self.bump('degenerate')
            yield dict(kind='adaptive', observed=obs, ops=ops, bad='degenerate')

    # ---- implementation drivers --------------------------------------------------------------------
    def run_impl(self, case):
        return getattr(self, 'impl_' + case['kind'])(case)

    def real_kwargs(self, case):
        kw = {}
        for k, v in case['kwargs'].items():
            kw[k] = v if k == 'p' else np.array(v, dtype=float)
        return kw

    def impl_dist(self, case):
        import elfi
        m, parents = build_parents(case['observed'])
        metric = case['metric']
        name = {'euclidean_w': 'euclidean', 'minkowski_frac': 'minkowski', 'minkowski_w': 'minkowski'}.get(metric, metric)
        crash = None
        res = None
        try:
            if metric == 'call_vec':
                d = elfi.Distance(call_cityblock_vec, *parents, name='d')
            elif metric == 'call_col':
                d = elfi.Distance(call_euclid_col, *parents, name='d')
            else:
                d = elfi.Distance(name, *parents, name='d', **self.real_kwargs(case))
            vals = {'s%d' % i: dec(s) for i, s in enumerate(case['summaries'])}
            out = d.generate(case['M'], with_values=vals)
            res = enc(out)
        except ValueError as e:
            res = None
        except Exception as e:          # anything but the documented ValueError
            crash = '%s: %s' % (type(e).__name__, e)
        if crash is not None:
            return dict(out=None, oracle=None, crash=crash)
        oracle = None
        if metric == 'minkowski_frac' and res is not None and case['bad'] is None:
            import scipy.spatial.distance as ssd
            X = np.hstack([np.array(s['v'], dtype=float).reshape(case['M'], -1) for s in case['summaries']])
            y = np.concatenate([np.array(o['v'], dtype=float).reshape(-1) for o in case['observed']])
            oracle = [[row.tolist(), float(ssd.minkowski(row, y, p=case['kwargs']['p']))] for row in X]
        return dict(out=res, oracle=oracle)

    def impl_kw(self, case):
        import elfi
        m, parents = build_parents([{'nd': 1, 'v': [0.5]}])
        kw = {}
        for k in case['order']:
            v = case['kwargs'][k]
            kw[k] = v[0] if k == 'p' else (np.array(v).reshape(2, 2) if k == 'VI' else np.array(v))
        if case['extra_name']:
            kw['name'] = 'dnode'
        try:
            d = elfi.Distance(case['metric'], parents[0], **kw)
        except ValueError:
            return dict(out=None)
        except Exception as e:
            return dict(out=None, crash='%s: %s' % (type(e).__name__, e))
        kws = d.state['attr_dict']['_operation'].args[0].keywords
        fn = d.state['attr_dict']['_operation'].args[0].func
        import scipy.spatial.distance
        out = [[k, (np.atleast_1d(np.asarray(v, dtype=float)).reshape(-1).tolist() if k != 'metric' else v)] for k, v in kws.items()]
        return dict(out=out, is_cdist=fn is scipy.spatial.distance.cdist, name=d.name,
                    stored=d.state['attr_dict'].get('distance', d.state.get('distance')))

    def observe_store(self, ad):
        st = ad.state['store']
        return [int(st[0])] + [np.atleast_1d(np.asarray(st[k], dtype=float)).tolist() for k in (1, 2)]

    def store_zero(self, ad):
        st = ad.state['store']
        return all(type(x) is int and x == 0 for x in st) and len(st) == 3

    def impl_adaptive(self, case):
        import elfi
        m, parents = build_parents(case['observed'])
        ad = elfi.AdaptiveDistance(*parents, name='ad')
        names = ['s%d' % i for i in range(len(parents))]
        obs = []
        with np.errstate(all='ignore'):
            for op in case['ops']:
                if op[0] == 'add':
                    try:
                        ad.add_data(*[dec(x) for x in op[1]])
                        n, mean, m2 = self.observe_store(ad)
                        obs.append(['add', n, mean, m2, np.atleast_1d(ad.state['scale']).astype(float).tolist()])
                    except ValueError:
                        obs.append(['err'])
                    except Exception as e:
                        obs.append(['crash', 'add_data: %s: %s' % (type(e).__name__, e)])
                elif op[0] == 'update':
                    try:
                        ad.update_distance()
                        obs.append(['update', np.atleast_1d(ad.state['w'][-1]).astype(float).tolist(),
                                    len(ad.state['distance_functions']),
                                    self.store_zero(ad) and len(ad.state['w']) == len(ad.state['distance_functions'])])
                    except KeyError:
                        obs.append(['err'])
                    except Exception as e:
                        obs.append(['crash', 'update_distance: %s: %s' % (type(e).__name__, e)])
                elif op[0] == 'init':
                    ad.init_adaptation_round()
                    obs.append(['init', self.store_zero(ad)])
                elif op[0] == 'gen':
                    vals = {k: dec(x) for k, x in zip(names, op[1])}
                    M = len(op[1][0]['v'])
                    try:
                        obs.append(['gen', enc(ad.generate(M, with_values=vals))])
                    except ValueError:
                        obs.append(['gen', None])
                    except Exception as e:
                        obs.append(['crash', 'generate: %s: %s' % (type(e).__name__, e)])
        return dict(obs=obs)

    def impl_rejection(self, case):
        import elfi
        b = case['batch_size']
        sd = np.array(case['sd'])
        m = elfi.ElfiModel()
        mu = elfi.Prior('uniform', 0, 4, model=m, name='mu')

        def sim(mu, batch_size=1, random_state=None):
            return mu[:, None] + random_state.randn(batch_size, 3) * sd
        Y = elfi.Simulator(sim, mu, observed=np.array([[2.0, 1.5, 2.5]]), name='Y')
        a = elfi.Summary(lambda y: y[:, 0], Y, name='a')
        bb = elfi.Summary(lambda y: y[:, 1:], Y, name='b')
        ad = elfi.AdaptiveDistance(a, bb, name='ad')
        pool = elfi.OutputPool(['a', 'b'])
        rej = elfi.Rejection(ad, batch_size=b, seed=case['seed'], pool=pool, output_names=['a', 'b'])
        obs_a = np.array([2.0])
        obs_b = np.array([[1.5, 2.5]])
        observed = [enc(obs_a), enc(obs_b)]
        ops, obs = [], []
        nb = case['n_batches']
        for rnd in range(case['rounds']):
            k = nb + rnd * case['extra_batches']
            res = rej.sample(case['n_samples'], n_sim=k * b, bar=False)
            used = rej.state['n_batches']
            for i in range(used):
                bt = pool.get_batch(i, ['a', 'b'])
                ops.append(['add', [enc(bt['a']), enc(bt['b'])]])
                obs.append(['skip'])
            ops.append(['update'])
            obs.append(['update', np.atleast_1d(ad.state['w'][-1]).astype(float).tolist(),
                        len(ad.state['distance_functions']), self.store_zero(ad)])
            ops.append(['sorted', [enc(res.outputs['a']), enc(res.outputs['b'])]])
            obs.append(['sorted', np.asarray(res.outputs['ad'], dtype=float).tolist()])
            # every returned row is one of the simulated rows
            allrows = np.vstack([np.column_stack([pool.get_batch(i, ['a'])['a'], pool.get_batch(i, ['b'])['b']]) for i in range(used)])
            ret = np.column_stack([res.outputs['a'], res.outputs['b']])
            member = all(any(np.array_equal(rw, x) for x in allrows) for rw in ret)
            obs[-1].append(bool(member))
        return dict(obs=obs, ops=ops, observed=observed)

    # ---- real sampler rounds ---------------------------------------------------------------------------
    def node_obs_add(self, sampler):
        """store and scale of the adaptive node of the sampler's own model (samplers work on a copy of the
        model: the store / w / distance_functions lists are shared with the user's node, 'scale' is not)"""
        if sampler is None:
            return ['skip']
        ad = sampler.model['ad']
        n, mean, m2 = self.observe_store(ad)
        # no 'scale' yet = nothing was ever added through this model: reported as an empty vector
        scale = np.atleast_1d(ad.state['scale']).astype(float).tolist() if 'scale' in ad.state else []
        return ['add', n, mean, m2, scale]

    def node_obs_update(self, ad):
        return ['update', np.atleast_1d(ad.state['w'][-1]).astype(float).tolist(), len(ad.state['distance_functions']),
                self.store_zero(ad) and len(ad.state['w']) == len(ad.state['distance_functions'])]

    def impl_sampler(self, case):
        import elfi
        log = []
        m, ad, names = build_sampler_model(case, log)
        slices = sampler_slices(case)
        obs_row = sampler_obs_row(case)
        observed = []
        for sl in slices:
            o = take_cols(*sl, obs_row)
            # the observed summaries as the node sees them: (1,) for a scalar summary, (1, w) for a vector one
            observed.append(enc(o))

        def summaries_of(y):
            return [enc(take_cols(*sl, y)) for sl in slices]

        def split_summ(srows):
            """column-stacked summaries (as the sampler returns them) -> one array per summary"""
            srows = np.asarray(srows, dtype=float)
            return [enc(take_cols(lo, hi, sc, None, srows)) for (lo, hi, sc, cast) in slices]

        def summ_rows(y):
            """simulator rows -> the column-stacked summaries (numeric values)"""
            return np.column_stack([np.asarray(take_cols(*sl, y), dtype=float).reshape(len(y), -1) for sl in slices])

        def values_of(y):
            return {nm: take_cols(*sl, y) for nm, sl in zip(names, slices)}

        def nested(y):
            """all nested distances of the rows y, as an (len(y), number of functions) array"""
            d = np.asarray(ad.generate(len(y), with_values=values_of(y)), dtype=float)
            return d.reshape(len(y), -1)

        # probe rows: fixed, from a harness-side stream
        hrs = np.random.RandomState(case['seed'] + 1)
        probe = sampler_sim_rows(hrs.uniform(0, 4, 3), hrs.randn(3, len(case['sd'])), case)
        ref = sampler_sim_rows(hrs.uniform(0, 4, 200), hrs.randn(200, len(case['sd'])), case)
        ops, obs, problems, info = [], [], [], dict(rejected_rows=0, empty_batches=0, rows=0, thr_rounds=0)
        pending_masks = []        # (index into ops, rows of the round, thresholds) - masks are filled in after the round

        def degenerate(rows):
            """a column of the round's summaries (integer-cast summaries are coarse) has no variance: scale 0,
            infinite weights - outside the statement; the driver stops here (a later threshold round on the
            resulting NaN distances would never accept a row) and the case is skipped as a degenerate round"""
            return bool(np.any(summ_rows(rows).var(axis=0) == 0))

        def degenerate_result(rows):
            return dict(obs=[['skip'], ['skip']], ops=[['batch', summaries_of(rows), [True] * len(rows)], ['update']],
                        observed=observed, problems=[], info=info)

        def close_round(batch_idx, rows, thr):
            """acceptance mask of every batch of a finished round: the distances that existed during the round
            (unchanged by the update) against the round's thresholds"""
            D = nested(rows)
            acc = np.ones(len(rows), dtype=bool)
            if thr is not None:
                t = np.atleast_1d(np.asarray(thr, dtype=float))
                acc = np.all(D[:, :len(t)] <= t, axis=1)
                info['thr_rounds'] += 1
            a = 0
            for i in batch_idx:
                k = len(ops[i][1][0]['v'])
                ops[i][2] = [bool(x) for x in acc[a:a + k]]
                if not acc[a:a + k].any():
                    info['empty_batches'] += 1
                a += k
            info['rejected_rows'] += int((~acc).sum())
            info['rows'] += len(rows)

        def after_update(returned, dcol, rows):
            """observations once a round's update_distance has run: weights, returned distance column, probe"""
            ops.append(['sorted', split_summ(returned)])
            member = all(any(np.array_equal(rw, x) for x in summ_rows(rows)) for rw in np.asarray(returned, dtype=float))
            obs.append(['sorted', np.asarray(dcol, dtype=float).reshape(-1).tolist(), bool(member)])
            ops.append(['gen', summaries_of(probe)])
            obs.append(['gen', enc(ad.generate(len(probe), with_values=values_of(probe)))])

        if case['driver'] == 'rejection':
            for k, spec in enumerate(case['rounds']):
                b = spec['batch_size']
                rej = elfi.Rejection(m, 'ad', batch_size=b, seed=case['seed'] + 17 * k)
                rej.bar = False
                ops.append(['init'])
                obs.append(['init', self.store_zero(ad)])
                kw, thr = {}, None
                if spec['objective'] == 'n_sim':
                    kw['n_sim'] = spec['n_sim']
                elif spec['objective'] == 'quantile':
                    kw['quantile'] = spec['quantile']
                else:
                    # thresholds = quantiles of the current nested distances over a harness-side reference
                    # sample of the prior predictive (the rows of a round are draws from the same distribution,
                    # so about the fraction below is accepted and the round stays short)
                    D = nested(ref)
                    q = spec['q']
                    while True:
                        thr = [float(np.quantile(D[:, c], q)) if f else np.inf for c, f in enumerate(spec['finite'])]
                        if np.mean(np.all(D <= np.array(thr), axis=1)) >= 0.15 or q > 0.99:
                            break
                        q = (q + 1) / 2
                    kw['threshold'] = thr[0] if len(thr) == 1 else thr
                del log[:]
                batch_idx = []
                if spec['mode'] == 'sample':
                    res = rej.sample(spec['n_samples'], bar=False, **kw)
                    for y in log:
                        batch_idx.append(len(ops))
                        ops.append(['batch', summaries_of(y), None])
                        obs.append(['skip'])
                else:
                    rej.set_objective(spec['n_samples'], **kw)
                    while not rej.finished:
                        nl = len(log)
                        rej.iterate()
                        if len(log) != nl + 1:
                            raise RuntimeError('one iterate() did not simulate exactly one batch')
                        batch_idx.append(len(ops))
                        ops.append(['batch', summaries_of(log[-1]), None])
                        obs.append(self.node_obs_add(rej))
                    rej.batches.cancel_pending()
                    res = rej.extract_result()
                rows = np.vstack(log)
                if len(rows) != rej.state['n_sim'] or len(log) != rej.state['n_batches']:
                    problems.append('round %d: the simulator produced %d rows in %d batches, the sampler counts n_sim=%d in %d batches'
                                    % (k, len(rows), len(log), rej.state['n_sim'], rej.state['n_batches']))
                if degenerate(rows):
                    return degenerate_result(rows)
                ops.append(['update'])
                obs.append(self.node_obs_update(ad))
                close_round(batch_idx, rows, thr)
                ret = np.column_stack([np.asarray(res.outputs[nm]).reshape(len(res.outputs['ad']), -1) for nm in names])
                after_update(ret, res.outputs['ad'], rows)
        else:
            b = case['batch_size']
            smc = elfi.AdaptiveDistanceSMC(m, 'ad', batch_size=b, seed=case['seed'])
            smc.bar = False
            smc.set_objective(case['n_samples'], case['rounds'], quantile=case['quantile'])
            ops.append(['init'])
            obs.append(['init', self.store_zero(ad)])
            nw = len(ad.state['w'])
            round_info = []           # per finished round: (batch op indices, rows, index of the 'sorted' placeholder)
            batch_idx, chunk = [], []

            def round_done():
                ops.append(['update'])
                obs.append(self.node_obs_update(ad))
                ops.append(None)          # the population's rows and distance column: known at the end
                obs.append(None)
                ops.append(['gen', summaries_of(probe)])
                obs.append(['gen', enc(ad.generate(len(probe), with_values=values_of(probe)))])
                round_info.append((list(batch_idx), np.vstack(chunk), len(ops) - 2))
                del batch_idx[:]
                del chunk[:]

            while not smc.finished:
                nl = len(log)
                smc.iterate()
                if len(log) != nl + 1:
                    raise RuntimeError('one iterate() did not simulate exactly one batch')
                batch_idx.append(len(ops))
                chunk.append(log[-1])
                ops.append(['batch', summaries_of(log[-1]), None])
                if len(ad.state['w']) != nw:
                    # this batch finished a population: update_distance has run and a new round has started
                    nw = len(ad.state['w'])
                    if degenerate(np.vstack(chunk)):
                        smc.batches.cancel_pending()
                        return degenerate_result(np.vstack(chunk))
                    obs.append(['skip'])
                    round_done()
                    ops.append(['init'])
                    obs.append(['init', self.store_zero(ad)])
                else:
                    obs.append(self.node_obs_add(getattr(smc, '_rejection', None)))
            smc.batches.cancel_pending()
            res = smc.extract_result()
            round_done()
            pops = res.populations
            if len(pops) != len(round_info):
                raise RuntimeError('%d populations but %d adaptation rounds observed' % (len(pops), len(round_info)))
            thr = None
            for k, (pop, (bidx, rows, at)) in enumerate(zip(pops, round_info)):
                if pop.n_sim != len(rows):
                    problems.append('population %d: the simulator produced %d rows, the sampler counts n_sim=%d'
                                    % (k, len(rows), pop.n_sim))
                close_round(bidx, rows, thr)
                ret = np.column_stack([np.asarray(pop.outputs[nm]).reshape(len(pop.outputs['ad']), -1) for nm in names])
                member = all(any(np.array_equal(rw, x) for x in summ_rows(rows)) for rw in np.asarray(ret, dtype=float))
                ops[at] = ['sorted', split_summ(ret)]
                obs[at] = ['sorted', np.asarray(pop.outputs['ad'], dtype=float).reshape(-1).tolist(), bool(member)]
                thr = [np.inf] + [p.threshold for p in pops[:k + 1]]
        return dict(obs=obs, ops=ops, observed=observed, problems=problems, info=info)

    # ---- python-side clauses -----------------------------------------------------------------------
    def py_check(self, case, out):
        fails = []
        if out.get('crash'):
            return [('crash', 'constructing / evaluating the distance node raised ' + out['crash'].split(':')[0])]
        if case['kind'] == 'kw' and out['out'] is not None:
            if not out['is_cdist']:
                fails.append(('kw_cdist', 'string metric is not evaluated through scipy cdist'))
            if case['extra_name'] and out['name'] != 'dnode':
                fails.append(('kw_rest', 'non-cdist keyword (name) did not reach the node: %r' % out['name']))
            if out['stored'] != case['metric']:
                fails.append(('kw_stored', "state['distance'] != given metric"))
        if case['kind'] == 'sampler':
            for msg in out['problems']:
                fails.append(('round_rows', 'the rows simulated in a round are not the rows the sampler accounts for: ' + msg))
        if case['kind'] in ('rejection', 'sampler'):
            for o in out['obs']:
                if o[0] == 'sorted' and not o[-1]:
                    fails.append(('rejection_rows', 'a returned summary row is not one of the simulated rows'))
        if case['kind'] == 'adaptive':
            for o in out['obs']:
                if o[0] == 'crash':
                    fails.append(('crash', 'a call on the AdaptiveDistance node raised: ' + o[1].split(':')[0] + ': ' + o[1].split(':')[1]))
                    break
        if case['kind'] == 'sampler' and has_degenerate_round(out['ops']):
            return fails
        if case['kind'] in ('adaptive', 'rejection', 'sampler') and case.get('bad') != 'degenerate' and not obs_finite(out['obs']):
            fails.append(('nonfinite', 'non-finite state or distance although every column of every round has positive variance'))
        if case['kind'] == 'dist' and not finite(out['out']):
            fails.append(('nonfinite', 'non-finite distance for finite inputs'))
        if case['kind'] == 'adaptive' and case['bad'] is None and obs_finite(out['obs']) and single_precision(case['ops']) \
                and not any(o[0] == 'crash' for o in out['obs']):
            if worst_conditioning(case['ops']) <= self.SINGLE_ILL:
                fails.extend(self.single_check(case, out))
        if (case['kind'] == 'adaptive' and case.get('dataset') and case['bad'] is None and obs_finite(out['obs'])
                and worst_conditioning(case['ops']) <= ILL):
            # every composition of the same data gives the same scale (relative 1e-9) as the first one seen
            last_add = [o for o in out['obs'] if o[0] == 'add'][-1]
            ref = self._part_ref.setdefault(case['dataset'], last_add)
            for a, b in zip(ref[4], last_add[4]):
                if abs(a - b) > 1e-9 * (abs(a) + abs(b)):
                    fails.append(('partition_scale', 'scale differs (rel > 1e-9) from the scale obtained with another split of the same data'))
                    break
        return fails

    SINGLE_RTOL = 1e-4
    SINGLE_ILL = 100.0

    def single_check(self, case, out):
        """scripts with a float32 adaptation round (the code keeps mean, M2, scale and weights of such a round in
        float32): the statement of `Welford.ok`, evaluated in binary64 numpy on the numeric values with the
        float32 tolerance 1e-4 instead of the 1e-9 of the Coq predicates (conditioning (mean/std)^2 <= 100)"""
        RT = self.SINGLE_RTOL
        V = np.concatenate([np.atleast_2d(np.array(o['v'], dtype=float)) for o in case['observed']], axis=1)
        rows, lastvar, vars_ = None, None, [None]

        def stack(batch):
            M = len(batch[0]['v'])
            return np.hstack([np.array(x['v'], dtype=float).reshape(M, -1) for x in batch])

        def near(a, b):
            a, b = np.asarray(a, dtype=float), np.asarray(b, dtype=float)
            return a.shape == b.shape and bool(np.all(np.abs(a - b) <= RT * np.abs(b)))

        for op, o in zip(case['ops'], out['obs']):
            if op[0] == 'add':
                data = stack(op[1])
                rows = data if rows is None else np.vstack([rows, data])
                lastvar = rows.var(axis=0)
                if o[0] != 'add':
                    return [('single_add', 'add_data on float32 summaries did not succeed')]
                n, mean, m2, scale = o[1:5]
                mag = np.abs(rows).mean(axis=0)
                if n != len(rows) or not near(scale, np.sqrt(lastvar)) or not near(m2, lastvar * len(rows)) \
                        or len(mean) != len(mag) or not np.all(np.abs(np.array(mean) - rows.mean(axis=0)) <= RT * mag):
                    return [('single_add', 'float32 round: count / mean / M2 / scale differ (rel > 1e-4) from those of '
                             'all rows added in the round')]
            elif op[0] == 'update':
                if o[0] != 'update' or lastvar is None:
                    return [('single_update', 'update_distance after a float32 round did not succeed')]
                if rows is not None and not near(np.array(o[1]) * np.sqrt(lastvar), np.ones(len(lastvar))):
                    return [('single_update', 'float32 round: weights are not 1/std (rel > 1e-4) of the rows of the round')]
                vars_.append(lastvar)
                rows = None
                if o[2] != len(vars_) or not o[3]:
                    return [('single_update', 'update_distance did not append exactly one function / reset the store')]
            elif op[0] == 'init':
                rows = None
                if not o[1]:
                    return [('single_update', 'init_adaptation_round did not reset the store')]
            elif op[0] == 'gen':
                if o[0] != 'gen' or o[1] is None:
                    return [('single_gen', 'generate on float32 summaries did not succeed')]
                U = stack(op[1])
                D = np.array(o[1]['v'], dtype=float).reshape(len(U), -1)
                if D.shape[1] != len(vars_) or (o[1]['nd'] == 1) != (len(vars_) == 1):
                    return [('single_gen', 'not one distance per function')]
                for c, var in enumerate(vars_):
                    expd = np.sqrt(np.sum((U - V) ** 2 / (1.0 if var is None else var), axis=1))
                    if not near(D[:, c], expd):
                        return [('single_gen', 'float32 round: distance %d is not the Euclidean distance divided by the '
                                 'scale of round %d (rel > 1e-4)' % (c, c))]
        return []

    def classify(self, case, out, clause):
        return None

    def nontrivial(self, case, out):
        key = json.dumps(case, sort_keys=True)
        if case['kind'] == 'dist':
            W = sum(len(np.array(s['v'], dtype=float).reshape(case['M'], -1)[0]) if case['bad'] is None else 1 for s in case['summaries'])
            return key if (W >= 2 or case['kwargs']) and out['out'] is not None else None
        if case['kind'] == 'kw':
            return key if case['kwargs'] else None
        if case['kind'] == 'rejection':
            return key
        if case['kind'] == 'sampler':
            info = out['info']
            self.bump('sampler:outcome:rows<=%d' % (10 * (1 + info['rows'] // 10)))
            self.bump('sampler:outcome:some_row_rejected=%s' % (info['rejected_rows'] > 0))
            self.bump('sampler:outcome:some_batch_accepts_nothing=%s' % (info['empty_batches'] > 0))
            nb, multi = 0, False
            for o in out['ops']:
                nb = nb + 1 if o[0] == 'batch' else (0 if o[0] in ('update', 'init') else nb)
                multi = multi or nb >= 2
            return key if multi else None
        ops = case['ops']
        multi = False
        cnt = 0
        for o in ops:
            if o[0] == 'add':
                cnt += 1
                multi = multi or cnt >= 2
            elif o[0] in ('update', 'init'):
                cnt = 0
        upd_gen = any(a[0] == 'update' and b[0] == 'gen' for a, b in zip(ops, ops[1:]))
        return key if multi and upd_gen and case['bad'] != 'degenerate' else None

    # ---- Coq terms -----------------------------------------------------------------------------------
    def mkind(self, case, out):
        metric, kw = case['metric'], case['kwargs']
        w = '(Some %s)' % cvec(kw['w']) if 'w' in kw else 'None'
        if metric in ('euclidean', 'euclidean_w', 'call_col'):
            return '(MEuclid %s)' % w
        if metric in ('cityblock', 'call_vec'):
            return 'MCity'
        if metric == 'chebyshev':
            return 'MCheb'
        if metric in ('minkowski', 'minkowski_w'):
            return '(MMink %d%%positive %s)' % (kw['p'], w)
        if metric == 'seuclidean':
            return '(MSeuclid %s)' % cvec(kw['V'])
        if metric == 'minkowski_frac':
            tbl = out['oracle'] or []
            return '(MOracle %s)' % clist(['(%s, %s)' % (cvec(u), cq(d)) for u, d in tbl])
        raise ValueError(metric)

    def cop(self, op):
        if op[0] == 'add':
            return '(OAdd %s)' % clist([carr(x) for x in op[1]])
        if op[0] == 'batch':
            return '(OBatch %s %s)' % (clist([carr(x) for x in op[1]]), clist([cbool(x) for x in op[2]]))
        if op[0] == 'update':
            return 'OUpdate'
        if op[0] == 'init':
            return 'OInit'
        if op[0] == 'gen':
            return '(OGen %s)' % clist([carr(x) for x in op[1]])
        return '(OSorted %s)' % clist([carr(x) for x in op[1]])

    def ciobs(self, o):
        if o[0] == 'add':
            return '(IAdd %s %s %s %s)' % (cnat(o[1]), cvec(o[2]), cvec(o[3]), cvec(o[4]))
        if o[0] == 'update':
            return '(IUpdate %s %s %s)' % (cvec(o[1]), cnat(o[2]), cbool(o[3]))
        if o[0] == 'init':
            return '(IInit %s)' % cbool(o[1])
        if o[0] == 'gen':
            return '(IGen %s)' % cout(o[1])
        if o[0] == 'sorted':
            return '(ISorted %s)' % cvec(o[1])
        if o[0] == 'err':
            return 'IErr'
        return 'ISkip'

    def to_coq(self, case, out):
        kind = case['kind']
        if out.get('crash'):
            return None
        if kind == 'dist':
            if not finite(out['out']):
                return None
            if case['metric'] == 'minkowski_frac' and out['oracle'] is None and out['out'] is not None:
                return None                      # malformed + oracle metric: nothing to compare with
            call = {'call_vec': 1, 'call_col': 2}.get(case['metric'], 0)
            return ('(CD {| d_kind := %s; d_summaries := %s; d_observed := %s; d_callable := %s; d_impl := %s |})'
                    % (self.mkind(case, out), clist([carr(x) for x in case['summaries']]),
                       clist([carr(x) for x in case['observed']]), cnat(call), cout(out['out'])))
        if kind == 'kw':
            kws = clist(['(%s, %s)' % (cstr(k), cvec(case['kwargs'][k])) for k in case['order']])
            if out['out'] is None:
                impl = 'None'
            else:
                rest = [(k, v) for k, v in out['out'] if k != 'metric']
                mname = [v for k, v in out['out'] if k == 'metric']
                impl = '(Some (%s, %s))' % (cstr(mname[0] if mname else ''), clist(['(%s, %s)' % (cstr(k), cvec(v)) for k, v in rest]))
            return '(CK {| k_metric := %s; k_kwargs := %s; k_impl := %s |})' % (cstr(case['metric']), kws, impl)
        if kind == 'sampler' and has_degenerate_round(out['ops']):
            self.bump('sampler:degenerate_round_skipped')
            return None
        if kind == 'sampler' and out['info']['rows'] > 400:
            self.bump('sampler:more_than_400_rows_skipped')      # exact arithmetic over that many rows is too slow
            return None
        if kind in ('rejection', 'sampler'):
            ops, obs, observed = out['ops'], [o[:-1] if o[0] == 'sorted' else o for o in out['obs']], out['observed']
        else:
            if case['bad'] == 'degenerate':
                return None
            ops, obs, observed = case['ops'], out['obs'], case['observed']
        if kind == 'adaptive' and single_precision(ops):
            # compared python-side with the float32 tolerance (py_check: single_check)
            self.bump('adaptive:float32_round:%s' % ('py_checked' if worst_conditioning(ops) <= self.SINGLE_ILL
                                                       else 'ill_conditioned_skipped'))
            return None
        if worst_conditioning(ops) > ILL:
            self.bump('adaptive:ill_conditioned_skipped')
            return None
        if not obs_finite(obs) or any(o[0] == 'crash' for o in obs):
            return None
        return ('(CA {| c_observed := %s; c_ops := %s; c_impl := %s |})'
                % (clist([carr(x) for x in observed]), clist([self.cop(o) for o in ops]), clist([self.ciobs(o) for o in obs])))


if __name__ == '__main__':
    sys.exit(run_check(C12))
