"""A ClientBase implementation driven by an explicit schedule: the oracle answers is_ready
questions, outstanding tasks are executed at scripted moments and in scripted order, and every
submit / is_ready / get_result / remove_task is recorded (by task id and batch index)."""
import random
import elfi.client


class ScriptedClient(elfi.client.ClientBase):
    def __init__(self, oracle=None, mode='lazy', num_cores=1, seed=0):
        """oracle: list of booleans answering is_ready in the order asked (True when exhausted);
        mode: 'lazy' (execute at get_result), 'eager' (execute at submit), 'shuffle' (execute outstanding
        tasks in random order at random client calls)"""
        self.oracle = list(oracle or [])
        self.mode = mode
        self._num_cores = num_cores
        self.rng = random.Random(seed)
        self.tasks = {}        # id -> [kallable, args, kwargs, done?, result]
        self.removed = set()
        self.events = []       # ('submit'|'ask'|'get'|'remove', task_id, batch_index[, answer])
        self.index_of = {}
        self.handler = None
        self.problems = []
        self._ids = 0
        self.exec_order = []

    # -- helpers
    def _run(self, tid):
        t = self.tasks[tid]
        if not t[3]:
            t[4] = t[0](*t[1], **t[2])
            t[3] = True
            self.exec_order.append(tid)

    def _maybe_shuffle_exec(self):
        if self.mode == 'shuffle':
            out = [tid for tid, t in self.tasks.items() if not t[3] and tid not in self.removed]
            self.rng.shuffle(out)
            for tid in out[:self.rng.randint(0, len(out))]:
                self._run(tid)

    # -- ClientBase api
    def apply(self, kallable, *args, **kwargs):
        tid = self._ids
        self._ids += 1
        idx = self.handler.next_index if self.handler is not None else None
        self.index_of[tid] = idx
        self.tasks[tid] = [kallable, args, kwargs, False, None]
        self.events.append(('submit', tid, idx))
        if self.mode == 'eager':
            self._run(tid)
        self._maybe_shuffle_exec()
        return tid

    def apply_sync(self, kallable, *args, **kwargs):
        return kallable(*args, **kwargs)

    def is_ready(self, task_id):
        ans = self.oracle.pop(0) if self.oracle else True
        self.events.append(('ask', task_id, self.index_of.get(task_id), bool(ans)))
        if task_id in self.removed or task_id not in self.tasks:
            self.problems.append('is_ready on removed/unknown task %r' % task_id)
        self._maybe_shuffle_exec()
        if ans and task_id in self.tasks:
            self._run(task_id)
        return bool(ans)

    def get_result(self, task_id):
        self.events.append(('get', task_id, self.index_of.get(task_id)))
        if task_id in self.removed:
            self.problems.append('get_result on a cancelled task %r (batch %r)' % (task_id, self.index_of.get(task_id)))
        if task_id not in self.tasks:
            self.problems.append('get_result on unknown/already consumed task %r' % task_id)
            raise KeyError(task_id)
        self._maybe_shuffle_exec()
        self._run(task_id)
        t = self.tasks.pop(task_id)
        return t[4]

    def remove_task(self, task_id):
        self.events.append(('remove', task_id, self.index_of.get(task_id)))
        self.removed.add(task_id)
        self.tasks.pop(task_id, None)

    def reset(self):
        self.tasks.clear()

    @property
    def num_cores(self):
        return self._num_cores

    def leftover(self):
        return sorted(self.tasks)
