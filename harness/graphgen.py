"""Random ELFI model graphs built through the real API with recording operations, and their
translation (by introspection of the real source_net) into the Coq `snet` of coq/Graph/Net.v.
Shared by the C02/C03/C05/C08/C14 harnesses."""
import numpy as np
from common import *


class T(tuple):
    """A symbolic application term ('app', opname, args, kwargs) returned by recording operations.
    Products and sums of terms (functools.reduce(mul | add, ...)) stay symbolic."""

    def __mul__(self, other):
        return T(('app', 'mul', (self, other), ()))

    def __add__(self, other):
        return T(('app', 'add', (self, other), ()))


RECORDERS = {}


class Recorder:
    """Per-model call log shared by all recording operations of one model (looked up through a
    module-level registry so that the operations stay picklable)."""

    def __init__(self):
        self.id = len(RECORDERS)
        RECORDERS[self.id] = self
        self.log = []
        self.draws = []
        self.bad = []

    def reset(self):
        self.log = []
        self.draws = []
        self.bad = []


def _canon_kwargs(rec, name, kwargs):
    kw = []
    for k in sorted(kwargs):
        v = kwargs[k]
        if k == 'batch_size':
            if not isinstance(v, (int, np.integer)):
                rec.bad.append((name, 'batch_size not int: %r' % (v,)))
            v = 'VBatch'
        elif k == 'meta':
            if not (isinstance(v, dict) and {'batch_index', 'submission_index', 'master_seed', 'model_name'} <= set(v)):
                rec.bad.append((name, 'meta malformed: %r' % (v,)))
            v = 'VMeta'
        elif k == 'random_state':
            if isinstance(v, np.random.RandomState):
                rec.draws.append((name, int(v.randint(2 ** 31))))
            elif v is np.random or callable(v):
                pass
            else:
                rec.bad.append((name, 'random_state is %r' % (type(v),)))
            v = 'VRng'
        kw.append((k, v))
    return tuple(kw)


class RecOp:
    """A recording operation: returns the symbolic term of its call and logs its own name."""

    def __init__(self, rec, name):
        self.rid = rec.id
        self.opname = name
        self.__name__ = 'rec_' + name

    def __call__(self, *args, **kwargs):
        rec = RECORDERS[self.rid]
        rec.log.append(self.opname)
        return T(('app', self.opname, tuple(args), _canon_kwargs(rec, self.opname, kwargs)))


def rec_op(rec, name):
    return RecOp(rec, name)


class RecDist:
    """A scipy-like distribution whose rvs records its call."""

    def __init__(self, rec, name):
        self.rid = rec.id
        self.name = name

    def rvs(self, *params, size=None, random_state=None):
        rec = RECORDERS[self.rid]
        rec.log.append(self.name)
        kw = _canon_kwargs(rec, self.name, dict(batch_size=int(size[0]), random_state=random_state))
        return T(('app', self.name, tuple(params), kw))

    def pdf(self, x, *params):
        RECORDERS[self.rid].log.append('pdf:' + self.name)
        return T(('app', 'pdf:' + self.name, (x,) + tuple(params), ()))

    def logpdf(self, x, *params):
        RECORDERS[self.rid].log.append('logpdf:' + self.name)
        return T(('app', 'logpdf:' + self.name, (x,) + tuple(params), ()))


NAME_POOL = ['a', 'B', 'c1', 'Z', 'k_2', 'm', 'X9', 'q', 'th', 'S1', 'S2', 'd', 'e', 'Yy', 'w', 'n0', 'A', 'zz', 'p_', 'u']


def gen_spec(rng, n_nodes=None, named_edges=True, allow_meta=True, want_disc=None):
    """A random well-formed model specification: list of node dicts in creation order."""
    n_nodes = n_nodes or rng.randint(2, 9)
    names = rng.sample(NAME_POOL, n_nodes)
    nodes = []
    for i, nm in enumerate(names):
        prev = nodes[:]
        r = rng.random()
        if i == 0 or r < 0.15:
            kind = 'const'
        elif r < 0.35:
            kind = 'prior'
        elif r < 0.5:
            kind = 'sim'
        elif r < 0.68:
            kind = 'summary'
        elif r < 0.8:
            kind = 'disc'
        else:
            kind = 'op'
        if kind in ('summary', 'disc') and not prev:
            kind = 'op'
        npar = 0 if kind == 'const' else rng.randint(1 if kind in ('summary', 'disc') else 0, min(4, len(prev)))
        if kind == 'disc':
            # discrepancies take observable parents mostly
            cands = [p for p in prev if p['kind'] in ('sim', 'summary')] or prev
            npar = min(npar, len(cands))
            pars = rng.sample(cands, max(1, npar))
        else:
            pars = rng.sample(prev, npar)
        parents = [[p['name'], k] for k, p in enumerate(pars)]
        named = []
        if named_edges and kind in ('op', 'summary', 'sim') and rng.random() < 0.3:
            others = [p for p in prev if p['name'] not in [q[0] for q in parents]]
            for p in rng.sample(others, min(len(others), rng.randint(1, 2))):
                named.append([p['name'], 'kw_' + p['name']])
        node = dict(name=nm, kind=kind, parents=parents, named=named,
                    value=(100 + i) if kind == 'const' else None,
                    observed=(1000 + i) if kind in ('sim', 'summary') and rng.random() < (0.75 if kind == 'sim' else 0.2) else None,
                    uses_meta=(rng.choice([True, True, 'off']) if (allow_meta and kind in ('op', 'sim', 'summary') and rng.random() < 0.3)
                               else False))
        nodes.append(node)
    return nodes


def gen_abc_spec(rng):
    """An ABC-shaped model: priors -> simulator (mostly with data) -> summaries -> discrepancy, optionally with a
    plain Operation spliced in after the simulator or after a summary (then the observed data would depend on a
    stochastic node through a node without an observed twin, and the graph must be rejected)."""
    names = rng.sample(NAME_POOL, 9)
    nodes = []

    def add(kind, parents, observed=None, value=None):
        nm = names[len(nodes)]
        nodes.append(dict(name=nm, kind=kind, parents=[[p, k] for k, p in enumerate(parents)], named=[],
                          value=value, observed=observed, uses_meta=False))
        return nm
    pri = [add('prior', []) for _ in range(rng.randint(1, 2))]
    if rng.random() < 0.3:
        pri.append(add('const', [], value=100))
    sim = add('sim', pri, observed=1001 if rng.random() < 0.85 else None)
    src = sim
    spliced = False
    if rng.random() < 0.3:
        src = add('op', [sim])
        spliced = True
    sums = [add('summary', [src]) for _ in range(rng.randint(1, 2))]
    if rng.random() < 0.15:
        sums[-1] = add('op', [sums[-1]])
        spliced = True
    add('disc', sums)
    return nodes, spliced


def build_model(spec, rec, order=None):
    """Create the real ElfiModel from a spec (optionally inserting nodes in another valid order)."""
    import elfi
    m = elfi.ElfiModel(name='m')
    refs = {}
    todo = list(spec) if order is None else [next(s for s in spec if s['name'] == n) for n in order]
    for nd in todo:
        ps = [refs[p] for p, _ in sorted(nd['parents'], key=lambda x: x[1])]
        nm = nd['name']
        k = nd['kind']
        if k == 'const':
            r = elfi.Constant(nd['value'], name=nm, model=m)
        elif k == 'op':
            r = elfi.Operation(rec_op(rec, nm), *ps, name=nm, model=m)
        elif k == 'prior':
            r = elfi.Prior(RecDist(rec, nm), *ps, name=nm, model=m)
        elif k == 'sim':
            r = elfi.Simulator(rec_op(rec, nm), *ps, name=nm, model=m, observed=nd['observed'])
        elif k == 'summary':
            r = elfi.Summary(rec_op(rec, nm), *ps, name=nm, model=m, observed=nd['observed'])
        elif k == 'disc':
            r = elfi.Discrepancy(rec_op(rec, nm), *ps, name=nm, model=m)
        else:
            raise ValueError(k)
        for p, kw in nd.get('named', []):
            m.add_edge(p, nm, kw)
        if nd.get('uses_meta'):
            r.uses_meta = True
            if nd['uses_meta'] == 'off':
                r.uses_meta = False      # the declaration is withdrawn: the flag stays in the state with a false value
        refs[nm] = r
    return m, refs


def valid_orders(spec, rng, k=1):
    """random topological re-orderings of the creation order"""
    outs = []
    for _ in range(k):
        remaining = list(spec)
        done = []
        while remaining:
            ready = [s for s in remaining
                     if all(p in done for p, _ in s['parents']) and all(p in done for p, _ in s.get('named', []))]
            s = rng.choice(ready)
            done.append(s['name'])
            remaining.remove(s)
        outs.append(done)
    return outs


# ---- python value -> Coq value ---------------------------------------------------------------

def cvalue(v):
    if isinstance(v, T):
        _, nm, args, kw = v
        return '(VApp (OpUser %s) %s %s)' % (cstr(nm), clist([cvalue(a) for a in args]),
                                            clist(['(%s, %s)' % (cstr(k), cvalue(x)) for k, x in kw]))
    if isinstance(v, tuple):
        return '(VApp OpTuple %s [])' % clist([cvalue(a) for a in v])
    if isinstance(v, str):
        assert v in ('VBatch', 'VMeta', 'VRng'), v
        return v
    if isinstance(v, (int, np.integer)) and not isinstance(v, bool):
        return '(VConst %s)' % cz(v)
    raise ValueError('cannot print value %r' % (v,))


def jvalue(v):
    """json-friendly rendering"""
    if isinstance(v, T):
        return ['app', v[1], [jvalue(a) for a in v[2]], [[k, jvalue(x)] for k, x in v[3]]]
    if isinstance(v, tuple):
        return ['tuple', [jvalue(a) for a in v]]
    if isinstance(v, (np.integer,)):
        return int(v)
    return v


def cparam(p):
    return '(PInt %s)' % cnat(p) if isinstance(p, (int, np.integer)) else '(PStr %s)' % cstr(p)


def opid_of_state(n, st):
    """identity of the node's operation callable: the name the recording operation logs"""
    op = st.get('_operation')
    if op is None:
        return ''
    kw = getattr(op, 'keywords', None)
    if kw and isinstance(kw.get('distribution'), RecDist):
        return kw['distribution'].name
    if isinstance(getattr(op, '__self__', None), RecDist):
        return '%s:%s' % (op.__name__, op.__self__.name)
    if type(op).__name__ == 'Compose':
        return 'reduce'
    nm = getattr(op, '__name__', '')
    if nm.startswith('rec_'):
        return nm[4:]
    return n


def snet_of_model(m):
    """Introspect the real source_net (node order, states, networkx edge order, observed)."""
    g = m.source_net
    nodes = []
    for n, d in g.nodes(data=True):
        st = d.get('attr_dict', {})
        out = st.get('_output') if '_output' in st else None
        nodes.append('(%s, {| s_output := %s; s_has_op := %s; s_stochastic := %s; s_observable := %s; '
                     's_uses_observed := %s; s_uses_batch_size := %s; s_uses_meta := %s; s_parameter := %s; s_opid := %s |})'
                     % (cstr(n), 'None' if '_output' not in st else '(Some %s)' % cvalue(out),
                        cbool('_operation' in st), cbool('_stochastic' in st), cbool(bool(st.get('_observable'))),
                        cbool(bool(st.get('_uses_observed'))), cbool(bool(st.get('_uses_batch_size'))),
                        cbool(bool(st.get('_uses_meta'))), cbool('_parameter' in st), cstr(opid_of_state(n, st))))
    edges = ['(%s, %s, %s)' % (cstr(u), cstr(v), cparam(d['param'])) for u, v, d in g.edges(data=True)]
    obs = ['(%s, %s)' % (cstr(k), cvalue(v)) for k, v in m.observed.items()]
    return '{| s_nodes := %s; s_edges := %s; s_observed := %s |}' % (clist(nodes), clist(edges), clist(obs))


# ---- graphs whose edges are attached through the explicit GraphicalModel.add_edge API (C03, wave 3) -----------

def gen_explicit_spec(rng, n_nodes=None):
    """A well-formed model in which part of the edges are attached, after the nodes exist, through
    `model.add_edge(parent, child, param)` with EXPLICIT parameters, in an arbitrary order: explicit positions
    (0 attached last, sparse positions, positions continuing after constructor parents), named parameters and the
    implicit `None` = next free position, mixed.  Every child's declared positions are distinct (two parents on one
    position are outside the property, DESIGN.md 11.5).  Returns (spec, attach):
      spec   - node dicts in CREATION order (as gen_spec, plus 'ctor' = how many of the positional parents, the ones
               declared for positions 0..ctor-1, are passed to the constructor; the creation order respects only these
               constructor edges, so a child may be created before the parents attached to it later);
      attach - [parent, child, param passed to add_edge (int | str | None), declared param (int | str)] in call order."""
    base = gen_spec(rng, n_nodes)
    attach = []
    for nd in base:
        pars = [p for p, _ in sorted(nd['parents'], key=lambda x: x[1])]
        if nd['kind'] == 'const':
            nd['ctor'] = 0
            continue
        must = 1 if nd['kind'] in ('summary', 'disc') else 0      # these constructors insist on a parent
        mode = rng.choice(['explicit', 'explicit', 'explicit', 'tail', 'ctor'])
        if mode == 'ctor' or len(pars) <= must:
            k0 = len(pars)
        elif mode == 'tail':
            k0 = rng.randint(must, len(pars) - 1)
        else:
            k0 = must
        nexp = len(pars) - k0
        if nexp and rng.random() < 0.4:
            pos = sorted(rng.sample(range(k0, k0 + nexp + 3), nexp))        # sparse positions
        else:
            pos = list(range(k0, k0 + nexp))
        nd['parents'] = [[p, k] for k, p in enumerate(pars[:k0])] + [[p, k] for p, k in zip(pars[k0:], pos)]
        nd['ctor'] = k0
        for p, k in nd['parents'][k0:]:
            attach.append([p, nd['name'], k, k])
        for p, kw in nd['named']:
            attach.append([p, nd['name'], kw, kw])
        nd['named_attached'] = True
    rng.shuffle(attach)
    # the implicit form: add_edge(parent, child) declares the next free position
    have = {nd['name']: set(range(nd['ctor'])) for nd in base}
    for a in attach:
        if isinstance(a[3], int):
            h = have[a[1]]
            if h == set(range(len(h))) and a[3] == len(h) and rng.random() < 0.35:
                a[2] = None
            h.add(a[3])
    # creation order: any order in which the constructor parents of a node exist before it
    remaining = list(base)
    done = []
    while remaining:
        ready = [s for s in remaining if all(p in done for p, _ in s['parents'][:s['ctor']])]
        s = rng.choice(ready)
        done.append(s['name'])
        remaining.remove(s)
    spec = [next(s for s in base if s['name'] == n) for n in done]
    return spec, attach


def _make_node(m, nd, ps, rec):
    import elfi
    nm = nd['name']
    k = nd['kind']
    if k == 'const':
        return elfi.Constant(nd['value'], name=nm, model=m)
    if k == 'op':
        return elfi.Operation(rec_op(rec, nm), *ps, name=nm, model=m)
    if k == 'prior':
        return elfi.Prior(RecDist(rec, nm), *ps, name=nm, model=m)
    if k == 'sim':
        return elfi.Simulator(rec_op(rec, nm), *ps, name=nm, model=m, observed=nd['observed'])
    if k == 'summary':
        return elfi.Summary(rec_op(rec, nm), *ps, name=nm, model=m, observed=nd['observed'])
    if k == 'disc':
        return elfi.Discrepancy(rec_op(rec, nm), *ps, name=nm, model=m)
    raise ValueError(k)


def build_model_explicit(spec, attach, rec):
    """Create the real ElfiModel of gen_explicit_spec: the nodes in spec order with their constructor parents, then
    the `attach` calls of model.add_edge in their order.  Returns (model, refs)."""
    import elfi
    m = elfi.ElfiModel(name='m')
    refs = {}
    for nd in spec:
        k0 = nd.get('ctor', len(nd['parents']))
        ps = [refs[p] for p, _ in sorted(nd['parents'], key=lambda x: x[1])[:k0]]
        r = _make_node(m, nd, ps, rec)
        if not nd.get('named_attached'):
            for p, kw in nd.get('named', []):
                m.add_edge(p, nd['name'], kw)
        if nd.get('uses_meta'):
            r.uses_meta = True
            if nd['uses_meta'] == 'off':
                r.uses_meta = False
        refs[nd['name']] = r
    for p, c, passed, _ in attach:
        if passed is None:
            m.add_edge(p, c)
        else:
            m.add_edge(p, c, passed)
    return m, refs


def declared_edges(spec, attach=(), extra=()):
    """The DECLARED dependencies of a model specification: (parent, child, param) for every positional parent (with
    its declared position: the constructor's argument index or the explicit index), every named parent and every
    explicitly attached edge, in declaration order (constructor edges at the child's creation, then `attach`, then
    `extra`)."""
    out = []
    for nd in spec:
        k0 = nd.get('ctor', len(nd['parents']))
        for p, k in sorted(nd['parents'], key=lambda x: x[1])[:k0]:
            out.append((p, nd['name'], k))
        if not nd.get('named_attached'):
            for p, kw in nd.get('named', []):
                out.append((p, nd['name'], kw))
    for a in attach:
        out.append((a[0], a[1], a[3]))
    out.extend(tuple(e) for e in extra)
    return out


def decl_in_net_order(declared, node_order):
    """Present a declaration (a set of triples) the way networkx lists a DiGraph's edges: grouped by source node in
    node order, the edges of one source in declaration order."""
    idx = {n: i for i, n in enumerate(node_order)}
    return [e for _, _, e in sorted((idx.get(e[0], len(idx)), i, e) for i, e in enumerate(declared))]


def cedges(edges):
    return clist(['(%s, %s, %s)' % (cstr(u), cstr(v), cparam(p)) for u, v, p in edges])
