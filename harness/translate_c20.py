"""Fail-closed translator for C20: BSL's three static logit-transform helpers -> Gallina over R.

Reads the *source text* of  <repo>/elfi/methods/inference/bsl.py  with `ast` (nothing is imported or
executed) and emits coq/Gen/C20_Transforms.v with, for every bound type k in '0','1','2','3',

    Definition trans<k> (a b x : R) : R := <per-coordinate expression of _para_logit_transform>.
    Definition back<k>  (a b y : R) : R := <... of _para_logit_back_transform>.
    Definition logJ<k>  (a b y : R) : R := <... of _jacobian_logit_transform>.

and, from `_get_mh_ratio`, which points the Jacobian is evaluated at (`mh_jacobian_args_transformed`).

Accepted shape of each helper (anything else raises TranslateError, which the check reports as a broken
proof obligation):

    <docstring>
    prelude statements, each one of a fixed list of exact texts (type_bnd/type_str computation, flatten,
        p = len(..), <out> = np.zeros(p))
    for i in range(p):
        NAME = bound[i, 0] | bound[i, 1] | <arg>[i] | type_str[i] | np.exp(NAME)      (bindings)
        if type_i == '<k>':                     (no elif/else; every k exactly once)
            bindings as above
            <out>[i] = EXPR
    return <out>                                (transform/back)   |   J = np.sum(logJ); return J

    EXPR ::= NAME | int/float literal | -EXPR | EXPR (+|-|*|/) EXPR | np.log(EXPR) | np.exp(EXPR)

Semantics used (trusted, see design_notes/C20.md): numpy scalar `+ - * /`, `np.log`, `np.exp` on finite
binary64 are the real operations (rounding ignored); `a = bound[i,0]`, `b = bound[i,1]`; the type string
is '0' both bounds finite, '1' only the upper bound finite, '2' only the lower bound finite, '3' none
(`np.matmul(np.isinf(bound), [1, 2])`), therefore a type-'1' formula must not mention `a`, a type-'2'
formula must not mention `b`, a type-'3' formula neither (checked: an infinite bound has no real value).
`ey = np.exp(y)` is inlined.  `J = np.sum(logJ)`: the log-Jacobian of the whole vector is the sum of the
coordinates' (the Coq side sums the per-coordinate terms).
"""
import ast
import fractions
import os

TYPES = ('0', '1', '2', '3')


class TranslateError(Exception):
    pass


# ---- expression trees: ('var', name) ('num', Fraction) ('neg', e) ('bin', op, l, r) ('ln', e) ('exp', e)

def _is_np_call(node, fname):
    return (isinstance(node, ast.Call) and isinstance(node.func, ast.Attribute) and node.func.attr == fname
            and isinstance(node.func.value, ast.Name) and node.func.value.id == 'np'
            and len(node.args) == 1 and not node.keywords)


def _expr(node, env, where):
    if isinstance(node, ast.Name):
        if node.id not in env:
            raise TranslateError('%s: unbound name %r' % (where, node.id))
        return env[node.id]
    if isinstance(node, ast.Constant):
        v = node.value
        if isinstance(v, bool) or not isinstance(v, (int, float)):
            raise TranslateError('%s: literal %r not accepted' % (where, v))
        if isinstance(v, float) and (v != v or v in (float('inf'), float('-inf'))):
            raise TranslateError('%s: non-finite literal' % where)
        return ('num', fractions.Fraction(v))
    if isinstance(node, ast.UnaryOp) and isinstance(node.op, ast.USub):
        return ('neg', _expr(node.operand, env, where))
    if isinstance(node, ast.BinOp):
        ops = {ast.Add: '+', ast.Sub: '-', ast.Mult: '*', ast.Div: '/'}
        if type(node.op) not in ops:
            raise TranslateError('%s: operator %s not accepted' % (where, type(node.op).__name__))
        return ('bin', ops[type(node.op)], _expr(node.left, env, where), _expr(node.right, env, where))
    if _is_np_call(node, 'log'):
        return ('ln', _expr(node.args[0], env, where))
    if _is_np_call(node, 'exp'):
        return ('exp', _expr(node.args[0], env, where))
    raise TranslateError('%s: expression form not accepted: %s' % (where, ast.unparse(node)))


def free_vars(e):
    if e[0] == 'var':
        return {e[1]}
    if e[0] == 'num':
        return set()
    if e[0] == 'bin':
        return free_vars(e[2]) | free_vars(e[3])
    return free_vars(e[1])


def to_coq(e):
    k = e[0]
    if k == 'var':
        return e[1]
    if k == 'num':
        f = e[1]
        if f.denominator == 1:
            return str(f.numerator) if f.numerator >= 0 else '(- %d)' % -f.numerator
        return '(%d / %d)' % (f.numerator, f.denominator)
    if k == 'neg':
        return '(- %s)' % to_coq(e[1])
    if k == 'bin':
        return '(%s %s %s)' % (to_coq(e[2]), e[1], to_coq(e[3]))
    if k == 'ln':
        return '(ln %s)' % to_coq(e[1])
    if k == 'exp':
        return '(exp %s)' % to_coq(e[1])
    raise TranslateError('internal: %r' % (e,))


def evaluate(e, env):
    """Evaluate a tree on Python floats (used by the harness to tie the translated text to the function)."""
    import math
    k = e[0]
    if k == 'var':
        return env[e[1]]
    if k == 'num':
        return float(e[1])
    if k == 'neg':
        return -evaluate(e[1], env)
    if k == 'bin':
        l, r = evaluate(e[2], env), evaluate(e[3], env)
        return l + r if e[1] == '+' else l - r if e[1] == '-' else l * r if e[1] == '*' else l / r
    if k == 'ln':
        return math.log(evaluate(e[1], env))
    if k == 'exp':
        return math.exp(evaluate(e[1], env))
    raise TranslateError('internal: %r' % (e,))


# ---- statement level ---------------------------------------------------------------------------

PRELUDE = {
    "type_bnd = np.matmul(np.isinf(bound), [1, 2])",
    "type_str = type_bnd.astype(str)",
}


def _strip_doc(body):
    if body and isinstance(body[0], ast.Expr) and isinstance(body[0].value, ast.Constant) \
            and isinstance(body[0].value.value, str):
        return body[1:]
    return body


def _subscript_of(node, base):
    """node is `base[i]` -> True."""
    return (isinstance(node, ast.Subscript) and isinstance(node.value, ast.Name) and node.value.id == base
            and isinstance(node.slice, ast.Name) and node.slice.id == 'i')


def _bound_col(node):
    """`bound[i, k]` -> k, else None."""
    if (isinstance(node, ast.Subscript) and isinstance(node.value, ast.Name) and node.value.id == 'bound'
            and isinstance(node.slice, ast.Tuple) and len(node.slice.elts) == 2
            and isinstance(node.slice.elts[0], ast.Name) and node.slice.elts[0].id == 'i'
            and isinstance(node.slice.elts[1], ast.Constant) and node.slice.elts[1].value in (0, 1)
            and not isinstance(node.slice.elts[1].value, bool)):
        return node.slice.elts[1].value
    return None


def _binding(st, env, arg, var, where):
    """Process one binding statement; returns True when consumed.  `var` is the Coq variable standing for
    <arg>[i]."""
    if not (isinstance(st, ast.Assign) and len(st.targets) == 1 and isinstance(st.targets[0], ast.Name)):
        return False
    name = st.targets[0].id
    v = st.value
    col = _bound_col(v)
    if col is not None:
        want = 'a' if col == 0 else 'b'
        if name != want:
            raise TranslateError('%s: bound[i, %d] must be bound to %r, found %r' % (where, col, want, name))
        env[name] = ('var', want)
        return True
    if _subscript_of(v, arg):
        if name != var:
            raise TranslateError('%s: %s[i] must be bound to %r, found %r' % (where, arg, var, name))
        env[name] = ('var', var)
        return True
    if _subscript_of(v, 'type_str'):
        if name != 'type_i':
            raise TranslateError('%s: type_str[i] must be bound to type_i' % where)
        env['type_i'] = None
        return True
    if _is_np_call(v, 'exp') and isinstance(v.args[0], ast.Name):
        if name in ('a', 'b', var, 'type_i', 'i', 'p'):
            raise TranslateError('%s: cannot rebind %r' % (where, name))
        env[name] = ('exp', _expr(v.args[0], {k: t for k, t in env.items() if t is not None}, where))
        return True
    return False


def translate_helper(fn, arg, var, out, flat_stmt, ret_kind):
    """Returns {type: tree}."""
    where = fn.name
    if [a.arg for a in fn.args.args] != [arg, 'bound'] or fn.args.vararg or fn.args.kwarg or fn.args.kwonlyargs:
        raise TranslateError('%s: unexpected signature' % where)
    if not any(isinstance(d, ast.Name) and d.id == 'staticmethod' for d in fn.decorator_list):
        raise TranslateError('%s: not a staticmethod' % where)
    body = _strip_doc(fn.body)
    allowed = set(PRELUDE) | {flat_stmt, 'p = len(%s)' % arg, '%s = np.zeros(p)' % out}
    seen = set()
    k = 0
    while k < len(body) and not isinstance(body[k], ast.For):
        txt = ast.unparse(body[k])
        if txt not in allowed:
            raise TranslateError('%s: prelude statement not accepted: %s' % (where, txt))
        seen.add(txt)
        k += 1
    if seen != allowed:
        raise TranslateError('%s: prelude statements missing: %s' % (where, sorted(allowed - seen)))
    if k >= len(body):
        raise TranslateError('%s: no loop' % where)
    loop = body[k]
    if ast.unparse(loop.target) != 'i' or ast.unparse(loop.iter) != 'range(p)' or loop.orelse:
        raise TranslateError('%s: loop header not accepted' % where)
    tail = [ast.unparse(s) for s in body[k + 1:]]
    want_tail = ['return %s' % out] if ret_kind == 'vector' else ['J = np.sum(%s)' % out, 'return J']
    if tail != want_tail:
        raise TranslateError('%s: statements after the loop not accepted: %s' % (where, tail))

    env = {}
    res = {}
    for st in loop.body:
        if _binding(st, env, arg, var, where):
            if res and not isinstance(st, ast.If):
                # bindings between the `if`s would make the order matter; keep it simple and refuse
                raise TranslateError('%s: binding after a type branch' % where)
            continue
        if not isinstance(st, ast.If):
            raise TranslateError('%s: loop statement not accepted: %s' % (where, ast.unparse(st)))
        t = st.test
        if st.orelse or not (isinstance(t, ast.Compare) and isinstance(t.left, ast.Name) and t.left.id == 'type_i'
                             and len(t.ops) == 1 and isinstance(t.ops[0], ast.Eq)
                             and isinstance(t.comparators[0], ast.Constant)
                             and t.comparators[0].value in TYPES):
            raise TranslateError('%s: branch test not accepted: %s' % (where, ast.unparse(st)[:80]))
        if 'type_i' not in env:
            raise TranslateError('%s: type_i used before being bound' % where)
        ty = t.comparators[0].value
        if ty in res:
            raise TranslateError('%s: type %s handled twice' % (where, ty))
        benv = dict(env)
        val = None
        for bs in st.body:
            if val is not None:
                raise TranslateError('%s: statement after the result assignment in type %s' % (where, ty))
            if _binding(bs, benv, arg, var, where):
                continue
            if (isinstance(bs, ast.Assign) and len(bs.targets) == 1 and _subscript_of(bs.targets[0], out)):
                val = _expr(bs.value, {k2: t2 for k2, t2 in benv.items() if t2 is not None}, '%s type %s' % (where, ty))
                continue
            raise TranslateError('%s: statement in type %s not accepted: %s' % (where, ty, ast.unparse(bs)))
        if val is None:
            raise TranslateError('%s: type %s assigns no result' % (where, ty))
        fv = free_vars(val)
        bad = {'0': set(), '1': {'a'}, '2': {'b'}, '3': {'a', 'b'}}[ty] & fv
        if bad:
            raise TranslateError('%s: type %s formula uses the infinite bound %s' % (where, ty, sorted(bad)))
        if not fv <= {'a', 'b', var}:
            raise TranslateError('%s: type %s formula has free names %s' % (where, ty, sorted(fv)))
        res[ty] = val
    if set(res) != set(TYPES):
        raise TranslateError('%s: bound types without a formula: %s' % (where, sorted(set(TYPES) - set(res))))
    return res


def mh_ratio_args(fn):
    """Structural reading of `_get_mh_ratio`: which arrays are handed to _jacobian_logit_transform.
    Returns True when both are `self._para_logit_transform(self.state['params'][n | n-1], bound)` values
    (the Jacobian is taken at the transformed points), in the order (n) - (n-1)."""
    binds = {}
    jac_args = []
    for node in ast.walk(fn):
        if isinstance(node, ast.Assign) and len(node.targets) == 1 and isinstance(node.targets[0], ast.Name):
            binds.setdefault(node.targets[0].id, []).append(ast.unparse(node.value))
    for node in ast.walk(fn):
        if isinstance(node, ast.Call) and isinstance(node.func, ast.Attribute) \
                and node.func.attr == '_jacobian_logit_transform':
            jac_args.append(ast.unparse(node.args[0]))
    if len(jac_args) != 2:
        raise TranslateError('_get_mh_ratio: expected two Jacobian evaluations, found %d' % len(jac_args))
    lp = binds.get('logp2', [])
    want = ('self._jacobian_logit_transform(%s, self.logit_transform_bound) - '
            'self._jacobian_logit_transform(%s, self.logit_transform_bound)') % tuple(jac_args)
    if want not in lp:
        raise TranslateError('_get_mh_ratio: logp2 is not J(new) - J(old): %s' % lp)
    out = []
    for nm, idx in zip(jac_args, ('n', 'n - 1')):
        src = binds.get(nm, [])
        out.append(src == ["self._para_logit_transform(self.state['params'][%s], self.logit_transform_bound)" % idx])
    return all(out)


def read_helpers(repo):
    path = os.path.join(repo, 'elfi', 'methods', 'inference', 'bsl.py')
    tree = ast.parse(open(path).read())
    cls = [n for n in tree.body if isinstance(n, ast.ClassDef) and n.name == 'BSL']
    if len(cls) != 1:
        raise TranslateError('class BSL not found')
    fns = {}
    for n in cls[0].body:
        if isinstance(n, ast.FunctionDef):
            if n.name in fns:
                raise TranslateError('duplicate definition of %s' % n.name)
            fns[n.name] = n
    for nm in ('_para_logit_transform', '_para_logit_back_transform', '_jacobian_logit_transform', '_get_mh_ratio'):
        if nm not in fns:
            raise TranslateError('%s not found' % nm)
    trans = translate_helper(fns['_para_logit_transform'], 'theta', 'x', 'theta_tilde',
                             'theta = theta.flatten()', 'vector')
    back = translate_helper(fns['_para_logit_back_transform'], 'theta_tilde', 'y', 'theta',
                            'theta_tilde = theta_tilde.flatten()', 'vector')
    logj = translate_helper(fns['_jacobian_logit_transform'], 'theta_tilde', 'y', 'logJ',
                            'theta_tilde = theta_tilde.flatten()', 'sum')
    return dict(trans=trans, back=back, logJ=logj, mh_transformed=mh_ratio_args(fns['_get_mh_ratio']))


def generate(repo, out_path):
    h = read_helpers(repo)
    lines = ['(** GENERATED by harness/translate_c20.py from %s/elfi/methods/inference/bsl.py - do not edit. *)' % repo,
             'From Coq Require Import Reals.', 'Local Open Scope R_scope.', '']
    for kind, var in (('trans', 'x'), ('back', 'y'), ('logJ', 'y')):
        for ty in TYPES:
            lines.append('Definition %s%s (a b %s : R) : R := %s.' % (kind, ty, var, to_coq(h[kind][ty])))
        lines.append('')
    lines.append('(** _get_mh_ratio evaluates the Jacobian at _para_logit_transform(params[n]) and (params[n-1]) *)')
    lines.append('Definition mh_jacobian_args_transformed : bool := %s.' % ('true' if h['mh_transformed'] else 'false'))
    txt = '\n'.join(lines) + '\n'
    os.makedirs(os.path.dirname(out_path), exist_ok=True)
    old = open(out_path).read() if os.path.exists(out_path) else None
    if old != txt:       # keep the timestamp when nothing changed (make then has nothing to rebuild)
        with open(out_path, 'w') as f:
            f.write(txt)
    return h


def main(argv=None):
    """`/venv/bin/python harness/translate_c20.py [out.v]` writes coq/Gen/C20_Transforms.v from $ELFI_REPO (/repo)."""
    import sys
    argv = sys.argv[1:] if argv is None else argv
    repo = os.environ.get('ELFI_REPO', '/repo')
    out = argv[0] if argv else os.path.join(os.path.dirname(os.path.dirname(os.path.abspath(__file__))),
                                            'coq', 'Gen', 'C20_Transforms.v')
    generate(repo, out)
    print('wrote %s' % out)
    return 0


if __name__ == '__main__':
    raise SystemExit(main())
