"""Small table-like ELFI models for the sampler properties (C01, C04, C05, C07): integer-valued
discrepancies from a small set (ties forced), optional infinite discrepancies, vector outputs."""
import numpy as np
from functools import partial


def sim_fn(*params, batch_size=1, random_state=None, width=2):
    x = random_state.normal(size=(batch_size, width))
    for p in params:
        x = x + np.asarray(p, dtype=float).reshape(-1, 1)
    return x


def summ_fn(x):
    return np.asarray(x)[:, 0]


def disc_fn(s, observed=None, levels=4, cut=None, inf_above=None):
    s = np.asarray(s, dtype=float).reshape(len(s), -1)[:, 0]
    o = float(np.asarray(observed[0]).reshape(-1)[0])
    d = np.floor(np.abs(s - o) * levels)
    if inf_above is not None:
        d = np.where(d > inf_above, np.inf, d)
    return d


def build(cfg):
    """cfg: dict(two_params, width, levels, inf_above)"""
    import elfi
    m = elfi.ElfiModel(name='rej')
    t1 = elfi.Prior('uniform', -1, 2, model=m, name='t1')
    params = [t1]
    if cfg.get('two_params'):
        t2 = elfi.Prior('normal', t1, 0.5, model=m, name='t2')
        params.append(t2)
    sim = elfi.Simulator(partial(sim_fn, width=cfg.get('width', 2)), *params, model=m, name='sim',
                         observed=np.zeros((1, cfg.get('width', 2))))
    s1 = elfi.Summary(summ_fn, sim, model=m, name='s1')
    d = elfi.Discrepancy(partial(disc_fn, levels=cfg.get('levels', 4), inf_above=cfg.get('inf_above')), s1, model=m, name='d')
    return m


def row_key(batch, names, i):
    return tuple(np.asarray(batch[k])[i].tobytes() for k in names)


def disc_value(x):
    x = float(x)
    return None if np.isinf(x) else int(x)


# ---- models for the SMC numeric clauses (C07): hierarchical priors whose child becomes invalid when the
# ---- parent leaves its support, parameters on arbitrary (mixed) scales.  `build` above is unchanged.
SMC_KINDS = ('flat', 'hier_uniform', 'hier_normal', 'hier_expon')
SMC_EXTRAS = (None, 'norm', 'unif')


def sim_scaled(*params, batch_size=1, random_state=None, width=2, scales=()):
    """the simulator sees every parameter in units of its own scale, so the discrepancies (and therefore the
    whole run up to the units of the parameters) do not depend on the scales; it runs for ANY real input"""
    x = random_state.normal(size=(batch_size, width))
    for p, s in zip(params, scales):
        x = x + (np.asarray(p, dtype=float) / s).reshape(-1, 1)
    return x


def smc_param_names(cfg):
    names = {'flat': ['t1', 't2'] if cfg.get('two_params') else ['t1'], 'hier_uniform': ['sc', 'lo'],
             'hier_normal': ['sd', 'mu'], 'hier_expon': ['sc', 'lo']}[cfg['kind']]
    return names + (['t3'] if cfg.get('extra') else [])


def build_smc(cfg):
    """cfg: dict(kind in SMC_KINDS, two_params (flat only), s1 = scale of the core parameters, extra in SMC_EXTRAS,
    s2 = scale of the extra parameter, width, levels).
      flat          t1 ~ U(-s1, s1)          [t2 ~ N(t1, 0.5 s1)]      (the prior of `build`, in units of s1)
      hier_uniform  sc ~ U(0, 2 s1)           lo ~ U(0, sc)             child undefined for sc <= 0
      hier_normal   sd ~ U(0, 2 s1)           mu ~ N(0, sd)             child undefined for sd <= 0
      hier_expon    sc ~ Expon(scale=s1)      lo ~ U(0, sc)             child undefined for sc <= 0
      extra         t3 ~ N(0, s2) | U(0, s2)  independent, on its own scale"""
    import elfi
    s1, s2 = float(cfg['s1']), float(cfg.get('s2', 1.0))
    m = elfi.ElfiModel(name='smcnum')
    kind = cfg['kind']
    if kind == 'flat':
        t1 = elfi.Prior('uniform', -s1, 2 * s1, model=m, name='t1')
        params = [t1]
        if cfg.get('two_params'):
            params.append(elfi.Prior('norm', t1, 0.5 * s1, model=m, name='t2'))
    elif kind == 'hier_uniform':
        sc = elfi.Prior('uniform', 0, 2 * s1, model=m, name='sc')
        params = [sc, elfi.Prior('uniform', 0, sc, model=m, name='lo')]
    elif kind == 'hier_normal':
        sd = elfi.Prior('uniform', 0, 2 * s1, model=m, name='sd')
        params = [sd, elfi.Prior('norm', 0, sd, model=m, name='mu')]
    elif kind == 'hier_expon':
        sc = elfi.Prior('expon', 0, s1, model=m, name='sc')
        params = [sc, elfi.Prior('uniform', 0, sc, model=m, name='lo')]
    else:
        raise ValueError(kind)
    scales = [s1] * len(params)
    if cfg.get('extra') == 'norm':
        params.append(elfi.Prior('norm', 0, s2, model=m, name='t3'))
        scales.append(s2)
    elif cfg.get('extra') == 'unif':
        params.append(elfi.Prior('uniform', 0, s2, model=m, name='t3'))
        scales.append(s2)
    width = cfg.get('width', 2)
    sim = elfi.Simulator(partial(sim_scaled, width=width, scales=tuple(scales)), *params, model=m, name='sim',
                         observed=np.zeros((1, width)))
    s1n = elfi.Summary(summ_fn, sim, model=m, name='s1')
    elfi.Discrepancy(partial(disc_fn, levels=cfg.get('levels', 4), inf_above=None), s1n, model=m, name='d')
    return m
