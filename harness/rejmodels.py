"""Small table-like ELFI models for the sampler properties (C01, C04, C05, C07): integer-valued
discrepancies from a small set (ties forced), optional infinite discrepancies, vector outputs."""
import numpy as np
from functools import partial


def sim_fn(*params, batch_size=1, random_state=None, width=2):
    x = random_state.normal(size=(batch_size, width))
    for p in params:
        x = x + np.asarray(p, dtype=float).reshape(-1, 1)
    return x


def summ_fn(x):
    return np.asarray(x)[:, 0]


def disc_fn(s, observed=None, levels=4, cut=None, inf_above=None):
    s = np.asarray(s, dtype=float).reshape(len(s), -1)[:, 0]
    o = float(np.asarray(observed[0]).reshape(-1)[0])
    d = np.floor(np.abs(s - o) * levels)
    if inf_above is not None:
        d = np.where(d > inf_above, np.inf, d)
    return d


def build(cfg):
    """cfg: dict(two_params, width, levels, inf_above)"""
    import elfi
    m = elfi.ElfiModel(name='rej')
    t1 = elfi.Prior('uniform', -1, 2, model=m, name='t1')
    params = [t1]
    if cfg.get('two_params'):
        t2 = elfi.Prior('normal', t1, 0.5, model=m, name='t2')
        params.append(t2)
    sim = elfi.Simulator(partial(sim_fn, width=cfg.get('width', 2)), *params, model=m, name='sim',
                         observed=np.zeros((1, cfg.get('width', 2))))
    s1 = elfi.Summary(summ_fn, sim, model=m, name='s1')
    d = elfi.Discrepancy(partial(disc_fn, levels=cfg.get('levels', 4), inf_above=cfg.get('inf_above')), s1, model=m, name='d')
    return m


def row_key(batch, names, i):
    return tuple(np.asarray(batch[k])[i].tobytes() for k in names)


def disc_value(x):
    x = float(x)
    return None if np.isinf(x) else int(x)
