"""C08 — the joint model prior: correspondence with coq/Graph/Prior.v plus numeric comparison with scipy."""
import numpy as np
import scipy.stats as ss
from common import *
from graphgen import *
from graphgen import _canon_kwargs


class Col:
    """marker for a supplied parameter column inside symbolic terms"""
    pass


def sym_value(v, cols):
    """numpy columns handed to the recording pdf methods -> the VConst code of that column"""
    if isinstance(v, T):
        return T((v[0], v[1], tuple(sym_value(a, cols) for a in v[2]), v[3]))
    if isinstance(v, np.ndarray):
        for code, col in cols:
            if v.shape == col.shape and np.array_equal(v, col):
                return code
        raise ValueError('unknown array argument')
    return v


class TA:
    """The array a recording density returns for a batch: one symbolic term per row.  Supports exactly what the
    code under test does with a density array: elementwise mul/add (functools.reduce) and val[0]."""

    def __init__(self, rows):
        self.rows = list(rows)

    def __len__(self):
        return len(self.rows)

    def __getitem__(self, i):
        if not isinstance(i, (int, np.integer)):
            raise TypeError('TA index %r' % (i,))
        return self.rows[i]

    def _zip(self, other, f):
        if not isinstance(other, TA) or len(other) != len(self):
            raise ValueError('TA arithmetic with %r' % (type(other).__name__,))
        return TA([f(a, b) for a, b in zip(self.rows, other.rows)])

    def __mul__(self, other):
        return self._zip(other, lambda a, b: a * b)

    def __add__(self, other):
        return self._zip(other, lambda a, b: a + b)


def rowval(v, i):
    """row i of an argument handed to a recording density: a supplied column, a batch of terms, or a constant"""
    if isinstance(v, np.ndarray):
        x = v[i]
        if float(x) != int(x):
            raise ValueError('non-integral code %r' % (x,))
        return int(x)
    if isinstance(v, TA):
        return v[i]
    return v


class RowDist(RecDist):
    """A recording distribution whose densities (and draws) are per-row terms, so that an n-row query can be
    compared row by row with the Coq model evaluated at the n points.  `name` is the identity of the distribution
    object, independent of the node that holds it."""

    def _rows(self, tag, x, params, n, kw=()):
        return TA([T(('app', tag, tuple(rowval(a, i) for a in ((x,) if x is not None else ()) + tuple(params)), kw)) for i in range(n)])

    def rvs(self, *params, size=None, random_state=None):
        rec = RECORDERS[self.rid]
        rec.log.append(self.name)
        kw = _canon_kwargs(rec, self.name, dict(batch_size=int(size[0]), random_state=random_state))
        return self._rows(self.name, None, params, int(size[0]), kw)

    def pdf(self, x, *params):
        return self._rows('pdf:' + self.name, x, params, len(x))

    def logpdf(self, x, *params):
        return self._rows('logpdf:' + self.name, x, params, len(x))


POISON = T(('app', 'POISON', (), ()))
KNOWN_ZTI = 'zero-times-infinite-factor'


# ---- specifications of the history modes (pure functions of the spec, shared by generator and driver) ----------
def spec_children(spec, nm):
    return [s['name'] for s in spec if nm in s['parents']]


def spec_descendants(spec, nm):
    seen, todo = set(), [nm]
    while todo:
        for c in spec_children(spec, todo.pop()):
            if c not in seen:
                seen.add(c)
                todo.append(c)
    return seen


def spec_apply(spec, ed):
    """the specification after one edit (the reading of the edit the property is checked against)"""
    spec = [dict(s, parents=list(s['parents'])) for s in spec]
    byname = {s['name']: s for s in spec}
    k = ed['op']
    if k == 'become_prior':
        byname[ed['name']].update(dist=ed['dist'], parents=list(ed['parents']))
    elif k == 'become_const':
        byname[ed['name']].update(value=ed['value'])
    elif k == 'add_prior':
        spec.append(dict(name=ed['name'], kind='prior', dist=ed['dist'], parents=list(ed['parents']), value=None))
    elif k == 'remove':
        spec = [s for s in spec if s['name'] != ed['name']]
    else:
        raise ValueError(k)
    return spec


def spec_topo(spec):
    done, out, todo = set(), [], list(spec)
    while todo:
        ready = [s for s in todo if all(p in done for p in s['parents'])]
        if not ready:
            raise ValueError('cyclic specification')
        for s in ready:
            out.append(s)
            done.add(s['name'])
            todo.remove(s)
    return out


def build_row_model(spec, rec):
    import elfi
    m = elfi.ElfiModel(name='m')
    for nd in spec_topo(spec):
        ps = [m[p] for p in nd['parents']]
        if nd['kind'] == 'const':
            elfi.Constant(nd['value'], name=nd['name'], model=m)
        elif nd['kind'] == 'prior':
            elfi.Prior(RowDist(rec, nd['dist']), *ps, name=nd['name'], model=m)
        else:
            elfi.Simulator(rec_op(rec, nd['name']), *ps, name=nd['name'], model=m)
    return m


def apply_edit_live(m, ed, rec, tmp):
    """the same edit through the public API on the live model object"""
    import elfi
    k = ed['op']
    if k == 'become_prior':
        m[ed['name']].become(elfi.Prior(RowDist(rec, ed['dist']), *[m[p] for p in ed['parents']], name=tmp, model=m))
    elif k == 'become_const':
        m[ed['name']].become(elfi.Constant(ed['value'], name=tmp, model=m))
    elif k == 'add_prior':
        elfi.Prior(RowDist(rec, ed['dist']), *[m[p] for p in ed['parents']], name=ed['name'], model=m)
    elif k == 'remove':
        m.remove_node(ed['name'])
    else:
        raise ValueError(k)


def close_params(spec, sub):
    byname = {s['name']: s for s in spec}
    sub = list(sub)
    todo = list(sub)
    while todo:
        for q in byname[todo.pop()]['parents']:
            if byname[q]['kind'] == 'prior' and q not in sub:
                sub.append(q)
                todo.append(q)
    return sub


def is_closed(spec, sub):
    byname = {s['name']: s for s in spec}
    return all(n in byname and byname[n]['kind'] == 'prior' for n in sub) and sorted(close_params(spec, sub)) == sorted(sub)


def make_input(shape, data, container):
    """the object handed to pdf/logpdf: same numbers, several dtypes / layouts / containers"""
    a = np.array(data, dtype=float).reshape(shape)
    if container == 'list':
        return a.tolist()
    if container == 'int64':
        return a.astype(np.int64)
    if container == 'float32':
        return a.astype(np.float32)
    if container == 'fortran' and a.ndim >= 2:
        return np.asfortranarray(a)
    if container == 'strided' and a.ndim >= 1:
        big = np.zeros(a.shape[:-1] + (2 * a.shape[-1],))
        big[..., ::2] = a
        return big[..., ::2]
    return a


DISTS = {
    'uniform': lambda r: [round(r.uniform(-2, 2), 2), round(r.uniform(0.5, 3), 2)],
    'norm': lambda r: [round(r.uniform(-2, 2), 2), round(r.uniform(0.3, 2), 2)],
    'expon': lambda r: [round(r.uniform(-1, 1), 2), round(r.uniform(0.5, 2), 2)],
    'beta': lambda r: [round(r.uniform(0.6, 4), 2), round(r.uniform(0.6, 4), 2)],
}


class C08(PropCheck):
    pid = 'C08'
    header = ('From Coq Require Import PrimFloat.\nFrom Coq Require Import List String ZArith Bool.\n'
              'From Elfi Require Import Base.Harness Graph.Net Graph.Edit Graph.Prior.\nImport ListNotations.\n')
    case_type = 'Prior.tcase'
    preds = (('Prior.agree_t', 'agree'), ('Prior.ok_t', 'ok'))
    chunk = 100
    build_targets = ('Graph/Prior.vo',)
    rule = ('(a) symbolic: random hierarchical models (priors whose arguments are constants or other priors, plus unrelated nodes) '
            'built with recording distributions; ModelPrior over a random parameter subset/order (closed under parameter parents, and '
            'a malformed share that is not); the real add_pdf_nodes result and the symbolic value of _evaluate_pdf/logpdf are compared '
            'with the Coq model and with the product/sum specification; (b) numeric: scipy priors (uniform/norm/expon/beta, constant or '
            'parameter-valued arguments), pdf/logpdf/rvs/gradient_logpdf against scipy evaluated directly at points inside, outside and '
            'on the boundary of the support, scalar/vector/matrix shaped inputs; (c) histories, symbolic: one live model object, '
            'row-wise recording distributions (each with its own identity), a script of edits through the public API (become on a prior: '
            'other distribution object / other, reordered or fewer arguments; become on a constant; a new prior; removal of a leaf prior), '
            'ModelPrior objects built before and after the edits (mostly the previous request again, also the default request and '
            'several objects alive at once) and interleaved _evaluate_pdf calls: fresh points, the previous bytes in another shape '
            '(scalar / (dim,) / (1,dim) / (n,dim) / (n,) / (n,1)), exact repeats, float64/int64/float32/list/Fortran/strided inputs, odd '
            'shapes (k*dim vector, 3-d, wrong size), returned arrays overwritten by the caller; every answer (shape and per-row terms) is '
            'compared in Coq with the model evaluated from the graph introspected when the object was built, and with the product/sum '
            'specification; the last object after an edit is shadowed by one built from a freshly constructed equivalent model; (d) '
            'histories, numeric: scipy priors, become/add edits on the live model (incl. supports moved far away), pdf/logpdf/'
            'gradient_logpdf/rvs calls on one object with byte-identical points in other shapes, repeats, in-place mutation of returned '
            'arrays and of the handed-over buffer; each answer must have the shape the input form demands, equal scipy evaluated on the '
            'edited specification, be bit-identical to a never-used ModelPrior of a copy of the model, and equal a ModelPrior of a freshly '
            'built equivalent model; draws have positive density under the edited specification; (e) gradient_logpdf on arrays, Coq '
            'side: scipy priors (beta/norm/expon/uniform, hierarchical locations), a matrix of 1-6 points mixing rows inside the '
            'support, far in a tail, outside, exactly on the end of the support of one conditional density and within 0.25-3 steps of '
            'it on either side; stepsize default / scalar / one-element / one per dimension (list or array), 1e-7..1e-2; the matrix '
            '((n,dim), (n,), (n,1); array/list/Fortran/strided), every row alone ((dim,), (1,dim), (), (1,), (1,1)) and a permuted '
            'sub-matrix with another stepsize; the log density of the object on the stencil of each single row (numgrad\'s own '
            'evaluation points, one logpdf call per row) is the table handed to Coq, where the binary64 model of gradient_logpdf/'
            'numgrad must reproduce every answer (agree) and every answer must have shape (dim,) / (n,dim) and, row by row, be zero '
            'where THAT row\'s stencil reaches -inf, else equal the central difference of the log density around that row (1e-6) and '
            'the analytic derivative of the sum of conditional log densities where the harness vouches for it (finite stencil, steps '
            '1e-7..1e-4, beta coordinates in [0.05,0.95]; 1e-3); python side: matrix rows bit-identical to the single-row answers, '
            'float64 result; non-trivial = at least two requested '
            'parameters or a parameter-valued argument, histories with an edit or at least two calls, gradient cases with at least two '
            'rows; distinct by (model, subset, order, point / script)')
    trusted = ('scipy.stats densities as oracles for the numeric comparison', 'finite-difference accuracy is not proved (stencil identity is checked exactly)',
               'gradient cases: the table of log density values is read from the implementation\'s own logpdf (checked against scipy by the other modes); '
               'the analytic derivative oracle is hand-written python (norm/expon/beta/uniform)')

    def generate(self):
        n = 400 if self.tier == 'quick' else 6250
        r = self.rng
        for i in range(n):
            yield (self._gen_symbolic, self._gen_numeric, self._gen_history, self._gen_numhist, self._gen_gradient)[i % 5](r)

    # ---- symbolic ----------------------------------------------------------------------------------
    def _gen_symbolic(self, r):
        k = r.randint(2, 7)
        names = r.sample(NAME_POOL, k)
        spec = []
        for i, nm in enumerate(names):
            prev = spec[:]
            if i == 0 or r.random() < 0.3:
                kind = 'const'
            elif r.random() < 0.75:
                kind = 'prior'
            else:
                kind = 'sim'
            cands = [p for p in prev if p['kind'] in ('const', 'prior')]
            npar = 0 if kind == 'const' else r.randint(0, min(3, len(cands)))
            pars = r.sample(cands, npar)
            spec.append(dict(name=nm, kind=kind, parents=[[p['name'], j] for j, p in enumerate(pars)], named=[],
                             value=(100 + i) if kind == 'const' else None, observed=None, uses_meta=False))
        priors = [s['name'] for s in spec if s['kind'] == 'prior']
        if not priors:
            spec.append(dict(name='pz', kind='prior', parents=[], named=[], value=None, observed=None, uses_meta=False))
            priors = ['pz']
        closed = r.random() < 0.85
        sub = r.sample(priors, r.randint(1, len(priors)))
        if closed:
            # close under parameter parents
            byname = {s['name']: s for s in spec}
            todo = list(sub)
            while todo:
                p = todo.pop()
                for q, _ in byname[p]['parents']:
                    if byname[q]['kind'] == 'prior' and q not in sub:
                        sub.append(q)
                        todo.append(q)
        r.shuffle(sub)
        self.bump('symbolic')
        self.bump('closed=%s' % closed)
        self.bump('n_params=%d' % len(sub))
        return dict(mode='symbolic', spec=spec, params=sub, log=r.random() < 0.5)

    def _run_symbolic(self, case):
        import elfi
        from elfi.model import augmenter
        from elfi.model.extensions import ModelPrior
        rec = Recorder()
        m, refs = build_model(case['spec'], rec)
        P = list(case['params'])
        log = case['log']
        model_snet = snet_of_model(m)
        # the real augmentation, on a copy, for introspection
        m2 = m.copy()
        jn = augmenter.add_pdf_nodes(m2, log=log, nodes=P)[0]
        aug = snet_of_model(m2).replace(cstr(jn), cstr('_joint'))
        # evaluation through ModelPrior
        x = np.array([[7000.0 + i, 8000.0 + i] for i in range(len(P))]).T     # two rows, one column per parameter
        cols = [(7000 + i, x[:, i]) for i in range(len(P))]
        try:
            prior = ModelPrior(m, parameter_names=P)
            val = prior._evaluate_pdf(x, log=log)
            impl = cvalue(sym_value(val, cols))
            impl_coq = '(Some %s)' % impl
            impl_j = jvalue(sym_value(val, cols))
        except Exception as e:
            impl_coq = 'None'
            impl_j = 'raised %s: %s' % (type(e).__name__, str(e)[:100])
        point = clist(['(%s, VConst %s)' % (cstr(p), cz(7000 + i)) for i, p in enumerate(P)])
        coq = ('{| p_model := %s; p_params := %s; p_log := %s; p_augmented := %s; p_point := %s; p_impl := %s |}'
               % (model_snet, clist([cstr(p) for p in P]), cbool(log), aug, point, impl_coq))
        return dict(mode='symbolic', impl=impl_j, coq='(Single %s)' % coq, problems=[])

    # ---- numeric -----------------------------------------------------------------------------------
    def _close(self, a, b, tol=1e-9):
        """a against b: same shape, same infinities, relative tolerance; a nan never agrees with anything"""
        a, b = np.asarray(a, dtype=float), np.asarray(b, dtype=float)
        if a.shape != b.shape:
            return False
        same_inf = (np.isinf(a) & np.isinf(b) & (np.sign(a) == np.sign(b)))
        with np.errstate(invalid='ignore'):
            return bool(np.all(same_inf | (np.abs(a - b) <= tol * np.maximum(1.0, np.abs(b)))))

    @staticmethod
    def _expected(params, order, x, log):
        """The joint (log) density at the point x (dict name -> float) as the property states it: zero (minus infinity) as
        soon as SOME conditional density is zero, whatever the other factors are (also +inf); otherwise the product (sum of
        logs) of the scipy conditional densities.  Second component: the point has the exotic shape {some factor zero and
        some other factor +inf}, where a plain IEEE product / sum is nan."""
        byname = {p['name']: p for p in params}
        fs = []
        for nm in order:
            p = byname[nm]
            args = [x[a] if isinstance(a, str) else a for a in p['args']]
            d = getattr(ss, p['dist'])
            fs.append(d.logpdf(x[nm], *args) if log else d.pdf(x[nm], *args))
        zero = [bool(np.isneginf(f)) if log else bool(f == 0) for f in fs]
        if any(zero):
            return (-np.inf if log else 0.0), any(bool(np.isposinf(f)) for f in fs)
        tot = 0.0 if log else 1.0
        for f in fs:
            tot = tot + f if log else tot * f
        return tot, False

    def _expected_rows(self, params, order, pts, log):
        with np.errstate(all='ignore'):
            ev = [self._expected(params, order, dict(zip(order, row)), log) for row in pts]
        return np.array([e[0] for e in ev], dtype=float), np.array([e[1] for e in ev], dtype=bool)

    def _against_oracle(self, got, exp, exotic, tol=1e-9):
        """(got agrees with exp everywhere outside the known shape, the known shape occurred) where the known shape is: the
        implementation answers nan at a point with a zero factor and a +inf factor (finding zero-times-infinite-factor)"""
        a, b = np.asarray(got, dtype=float), np.asarray(exp, dtype=float)
        if a.shape != b.shape:
            return False, False
        known = np.broadcast_to(np.asarray(exotic, dtype=bool), b.shape) & np.isnan(a)
        same_inf = (np.isinf(a) & np.isinf(b) & (np.sign(a) == np.sign(b)))
        with np.errstate(invalid='ignore'):
            good = same_inf | (np.abs(a - b) <= tol * np.maximum(1.0, np.abs(b)))
        if np.any(known):
            self.bump('numeric:zero-times-infinite-factor')
        return bool(np.all(good | known)), bool(np.any(known))

    def _gen_numeric(self, r):
        k = r.randint(1, 4)
        params = []
        for i in range(k):
            dist = r.choice(list(DISTS))
            args = DISTS[dist](r)
            if i > 0 and dist in ('uniform', 'norm', 'expon') and r.random() < 0.5:
                args[0] = 'p%d' % r.randrange(i)        # parameter-valued location
            params.append(dict(name='p%d' % i, dist=dist, args=args))
        names = [p['name'] for p in params]
        sub = r.sample(names, r.randint(1, k))
        byname = {p['name']: p for p in params}
        todo = list(sub)
        while todo:
            p = todo.pop()
            for a in byname[p]['args']:
                if isinstance(a, str) and a not in sub:
                    sub.append(a)
                    todo.append(a)
        r.shuffle(sub)
        self.bump('numeric')
        self.bump('n_params=%d' % len(sub))
        return dict(mode='numeric', params=params, subset=(None if r.random() < 0.3 and len(sub) == k else sub),
                    seed=r.randrange(2 ** 31), kinds=[r.choice(['inside', 'inside', 'outside', 'boundary']) for _ in range(4)])

    @staticmethod
    def _direct(params, order, x, log):
        """product (sum of logs) of scipy conditional densities at the point x (dict name -> float)"""
        byname = {p['name']: p for p in params}
        tot = 0.0 if log else 1.0
        for nm in order:
            p = byname[nm]
            args = [x[a] if isinstance(a, str) else a for a in p['args']]
            d = getattr(ss, p['dist'])
            if log:
                tot = tot + d.logpdf(x[nm], *args)
            else:
                tot = tot * d.pdf(x[nm], *args)
        return tot

    def _run_numeric(self, case):
        import elfi
        from elfi.model.extensions import ModelPrior
        problems = []
        params = case['params']
        m = elfi.ElfiModel(name='np')
        refs = {}
        for p in params:
            args = [refs[a] if isinstance(a, str) else a for a in p['args']]
            refs[p['name']] = elfi.Prior(p['dist'], *args, name=p['name'], model=m)
        # something unrelated downstream
        elfi.Simulator(lambda *a, batch_size=1, random_state=None: random_state.normal(size=batch_size), refs[params[0]['name']],
                       name='sim', model=m, observed=np.array([0.0]))
        sub = case['subset']
        prior = ModelPrior(m, parameter_names=sub)
        order = prior.parameter_names
        dim = len(order)
        rs = np.random.RandomState(case['seed'])
        byname = {p['name']: p for p in params}

        def close(a, b, tol=1e-9):
            return self._close(a, b, tol)

        # draws have positive density; shapes of rvs
        draws = prior.rvs(size=5, random_state=rs)
        if np.shape(draws) != ((5,) if dim == 1 else (5, dim)):
            problems.append('rvs(size=5) has shape %r for dim %d' % (np.shape(draws), dim))
        one = prior.rvs(random_state=rs)
        if np.shape(one) != (() if dim == 1 else (dim,)):
            problems.append('rvs() has shape %r for dim %d' % (np.shape(one), dim))
        d2 = np.asarray(draws, dtype=float).reshape(5, dim)
        pd = np.asarray(prior.pdf(draws if dim > 1 else d2[:, 0])).reshape(-1)
        if not np.all(pd > 0):
            problems.append('a draw from the prior has density %r' % pd.tolist())
        # evaluation points
        pts = []
        for kind, row in zip(case['kinds'], d2):
            row = row.copy()
            if kind == 'outside':
                j = rs.randint(dim)
                pj = byname[order[j]]
                row[j] = {'uniform': -50.0, 'expon': -50.0, 'beta': 1.5, 'norm': 40.0}[pj['dist']]
            elif kind == 'boundary':
                j = rs.randint(dim)
                pj = byname[order[j]]
                x = dict(zip(order, row))
                loc = pj['args'][0]
                loc = x[loc] if isinstance(loc, str) else loc
                if pj['dist'] == 'uniform':
                    row[j] = loc + (pj['args'][1] if rs.rand() < 0.5 else 0.0)
                elif pj['dist'] == 'expon':
                    row[j] = loc
                elif pj['dist'] == 'beta':
                    row[j] = 0.0 if rs.rand() < 0.5 else 1.0
            pts.append(row)
        pts = np.array(pts)
        exp_pdf, ex_pdf = self._expected_rows(params, order, pts, False)
        exp_log, ex_log = self._expected_rows(params, order, pts, True)
        with np.errstate(all='ignore'):
            got_pdf = np.asarray(prior.pdf(pts if dim > 1 else pts[:, 0]))
            got_log = np.asarray(prior.logpdf(pts if dim > 1 else pts[:, 0]))
        okp, knownp = self._against_oracle(got_pdf, exp_pdf, ex_pdf)
        okl, knownl = self._against_oracle(got_log, exp_log, ex_log)
        if not okp:
            problems.append('pdf %r != product of conditional densities %r at %r (order %r)' % (got_pdf.tolist(), exp_pdf.tolist(), pts.tolist(), order))
        if not okl:
            problems.append('logpdf %r != sum of conditional log densities %r' % (got_log.tolist(), exp_log.tolist()))
        if knownp or knownl:
            problems.append((KNOWN_ZTI, 'pdf %r / logpdf %r at %r (order %r): nan where one conditional density is zero and another is '
                             '+inf; the property asks for %r / %r' % (got_pdf.tolist(), got_log.tolist(), pts.tolist(), order, exp_pdf.tolist(), exp_log.tolist())))
        if got_pdf.shape == exp_pdf.shape and np.any(((got_pdf == 0) != (exp_pdf == 0)) & ~(ex_pdf & np.isnan(got_pdf))):
            problems.append('pdf zero pattern differs from the factors: %r vs %r' % (got_pdf.tolist(), exp_pdf.tolist()))
        if got_log.shape == exp_log.shape and np.any((np.isneginf(got_log) != np.isneginf(exp_log)) & ~(ex_log & np.isnan(got_log))):
            problems.append('logpdf -inf pattern differs: %r vs %r' % (got_log.tolist(), exp_log.tolist()))
        # shapes: a single point
        with np.errstate(all='ignore'):
            p0 = prior.pdf(pts[0] if dim > 1 else pts[0, 0])
            l0 = prior.logpdf(pts[0] if dim > 1 else pts[0, 0])
            p2 = prior.pdf(pts[:1] if dim > 1 else pts[:1, :])
        if np.ndim(p0) != 0 or np.ndim(l0) != 0:
            problems.append('single point gives pdf of shape %r / logpdf of shape %r' % (np.shape(p0), np.shape(l0)))
        elif not (self._against_oracle(p0, exp_pdf[0], ex_pdf[0])[0] and self._against_oracle(l0, exp_log[0], ex_log[0])[0]):
            problems.append('single point value %r / %r differs from %r / %r' % (p0, l0, exp_pdf[0], exp_log[0]))
        if np.shape(p2) != (1,):
            problems.append('2-d input with one row gives shape %r' % (np.shape(p2),))
        # gradient: equals the central-difference stencil of its own logpdf, zero when the stencil leaves the support,
        # and agrees with the analytic derivative at interior points
        h = 1e-5
        for ri, row in enumerate(pts[:2]):
            with np.errstate(all='ignore'):
                g = np.asarray(prior.gradient_logpdf(row if dim > 1 else row[0]))
                lp = [[prior.logpdf(row + s * h * np.eye(dim)[j]) if dim > 1 else prior.logpdf(row[0] + s * h) for j in range(dim)] for s in (-1, 1)]
                stencil_vals = np.array(lp, dtype=float)
                centre = prior.logpdf(row if dim > 1 else row[0])
            if np.shape(g) != (() if dim == 1 and np.ndim(g) == 0 else (dim,)) and np.shape(g) != (dim,):
                problems.append('gradient_logpdf shape %r for dim %d' % (np.shape(g), dim))
                continue
            g = np.asarray(g, dtype=float).reshape(-1)
            if np.isnan(centre) and ex_log[ri]:
                self.bump('numeric:gradient-at-zero-times-infinite-factor')      # reported above under its own key; no log density to differentiate
            elif np.any(np.isneginf(stencil_vals)) or np.isneginf(centre):
                if not np.all(g == 0):
                    problems.append('gradient %r is not zero although the stencil leaves the support' % g.tolist())
            else:
                fd = (stencil_vals[1] - stencil_vals[0]) / (2 * h)
                if not close(g, fd, tol=1e-6):
                    problems.append('gradient %r != central difference %r of logpdf' % (g.tolist(), fd.tolist()))
        return dict(mode='numeric', problems=problems, order=order, n_points=len(pts))

    # ---- histories, symbolic -----------------------------------------------------------------------
    CONTAINERS = ['array', 'array', 'array', 'list', 'int64', 'float32', 'fortran', 'strided']

    def _gen_calls(self, r, dim, ncalls):
        """calls on one object: fresh points, byte-identical data in another shape, exact repeats; some odd shapes"""
        calls = []
        prev = None
        for _ in range(ncalls):
            u = r.random()
            log = r.random() < 0.5
            if prev is not None and u < 0.2:
                c = dict(prev, container=r.choice(self.CONTAINERS))                    # the same call again
                if r.random() < 0.3:
                    c['log'] = log
                self.bump('hist:repeat')
            elif prev is not None and u < 0.6:
                # the same bytes in another shape (same log flag mostly)
                n = len(prev['data'])
                if dim == 1:
                    shapes = [[n], [n, 1]] + ([[]] if n == 1 else [])
                else:
                    shapes = [[n // dim, dim]] + ([[dim]] if n == dim else []) if n % dim == 0 else [[n]]
                shapes = [sh for sh in shapes if sh != prev['shape']] or [prev['shape']]
                c = dict(log=prev['log'] if r.random() < 0.8 else log, shape=r.choice(shapes), data=list(prev['data']),
                         container=r.choice(['array', 'array', 'list']) if r.random() < 0.8 else r.choice(self.CONTAINERS))
                self.bump('hist:same-bytes-other-shape')
            else:
                odd = r.random() < 0.1
                n = 1 if r.random() < 0.4 else r.randint(2, 3)
                if odd:
                    shape = r.choice([[2 * dim], [n, 1, dim], [dim + 1], []] if dim > 1 else [[n, 1, 1], [1, n]])
                    self.bump('hist:odd-shape')
                elif dim == 1:
                    shape = r.choice([[], [n], [n, 1], [1], [1, 1]])
                else:
                    shape = r.choice([[dim], [n, dim], [1, dim]])
                size = int(np.prod(shape)) if shape else 1
                c = dict(log=log, shape=shape, data=[7000 + r.randrange(5) for _ in range(size)], container=r.choice(self.CONTAINERS))
            c['poison'] = r.random() < 0.4
            self.bump('hist:shape-ndim=%d' % len(c['shape']))
            self.bump('hist:container=%s' % c['container'])
            calls.append(c)
            prev = c
        return calls

    def _gen_edit(self, r, spec, counter):
        priors = [s for s in spec if s['kind'] == 'prior']
        consts = [s for s in spec if s['kind'] == 'const']
        u = r.random()
        used = {s['name'] for s in spec}
        if u < 0.5 and priors:
            p = r.choice(priors)
            bad = spec_descendants(spec, p['name']) | {p['name']}
            cands = [s['name'] for s in spec if s['kind'] in ('const', 'prior') and s['name'] not in bad]
            if r.random() < 0.35:
                parents = list(p['parents'])            # only the distribution object changes
                if r.random() < 0.5 and len(parents) > 1:
                    r.shuffle(parents)                  # ... or the order of its arguments
            else:
                parents = r.sample(cands, r.randint(0, min(3, len(cands))))
            return dict(op='become_prior', name=p['name'], dist='%s_v%d' % (p['name'], counter) if r.random() < 0.8 else p['dist'],
                        parents=parents)
        if u < 0.7 and consts:
            return dict(op='become_const', name=r.choice(consts)['name'], value=200 + counter)
        if u < 0.9 or len(priors) < 2:
            free = [n for n in NAME_POOL if n not in used]
            cands = [s['name'] for s in spec if s['kind'] in ('const', 'prior')]
            return dict(op='add_prior', name=r.choice(free), dist='d%d' % counter, parents=r.sample(cands, r.randint(0, min(2, len(cands)))))
        leaf = [s for s in priors if not spec_children(spec, s['name'])]
        if leaf:
            return dict(op='remove', name=r.choice(leaf)['name'])
        return dict(op='become_const', name=r.choice(consts)['name'], value=200 + counter) if consts else None

    def _gen_history(self, r):
        k = r.randint(2, 6)
        names = r.sample(NAME_POOL, k)
        spec = []
        for i, nm in enumerate(names):
            kind = 'const' if i == 0 or r.random() < 0.3 else ('prior' if r.random() < 0.8 else 'sim')
            cands = [s['name'] for s in spec if s['kind'] in ('const', 'prior')]
            parents = [] if kind == 'const' else r.sample(cands, r.randint(0, min(3, len(cands))))
            spec.append(dict(name=nm, kind=kind, dist=nm if r.random() < 0.5 else 'D' + nm, parents=parents,
                             value=(100 + i) if kind == 'const' else None))
        if not any(s['kind'] == 'prior' for s in spec):
            spec.append(dict(name='pz', kind='prior', dist='pz', parents=[], value=None))
        cur = spec
        steps = []
        nbuilds = 0
        live = []           # (object index, params, dim) built from the current graph
        last_params = None
        counter = 0
        for phase in range(r.randint(1, 3)):
            if phase > 0:
                for _ in range(r.randint(1, 2)):
                    counter += 1
                    ed = self._gen_edit(r, cur, counter)
                    if ed is None:
                        continue
                    steps.append(dict(step='edit', edit=ed))
                    cur = spec_apply(cur, ed)
                    self.bump('hist:edit=%s' % ed['op'])
                live = []
            priors = [s['name'] for s in cur if s['kind'] == 'prior']
            for b in range(r.randint(1, 2)):
                # mostly the request of the previous build again (the interesting one after an edit)
                if last_params is not None and b == 0 and r.random() < 0.75 and (last_params == 'default' or is_closed(cur, last_params)):
                    params = last_params
                elif r.random() < 0.25:
                    params = 'default'
                else:
                    params = r.sample(priors, r.randint(1, len(priors)))
                    if r.random() < 0.9:
                        params = close_params(cur, params)
                    else:
                        self.bump('hist:unclosed-request')
                    r.shuffle(params)
                last_params = params
                dim = len(priors) if params == 'default' else len(params)
                steps.append(dict(step='build', params=params, fresh_equivalent=(phase > 0 and b == 0)))
                live.append((nbuilds, dim))
                nbuilds += 1
            # calls on the live objects, interleaved
            per_obj = {o: self._gen_calls(r, dim, r.randint(2, 5)) for o, dim in live}
            order = [o for o, cs in per_obj.items() for _ in cs]
            r.shuffle(order)
            for o in order:
                steps.append(dict(step='call', obj=o, **per_obj[o].pop(0)))
        self.bump('history')
        self.bump('hist:objects=%d' % nbuilds)
        return dict(mode='history', spec=spec, steps=steps)

    @staticmethod
    def _answer(val):
        """observed answer -> (shape, list of per-row terms)"""
        if isinstance(val, TA):
            return [len(val)], list(val.rows)
        if isinstance(val, T):
            return [], [val]
        raise ValueError('answer of type %s: %r' % (type(val).__name__, val))

    def _run_history(self, case):
        from elfi.model.extensions import ModelPrior
        rec = Recorder()
        cur = case['spec']
        m = build_row_model(cur, rec)
        objs = []            # dict(prior, snet, params, calls, fresh)
        problems = []
        ntmp = 0
        for st in case['steps']:
            if st['step'] == 'edit':
                ntmp += 1
                apply_edit_live(m, st['edit'], rec, 'tmp%d' % ntmp)
                cur = spec_apply(cur, st['edit'])
            elif st['step'] == 'build':
                P = None if st['params'] == 'default' else list(st['params'])
                o = dict(snet=snet_of_model(m), calls=[], fresh=None)
                try:
                    o['prior'] = ModelPrior(m, parameter_names=P)
                    o['params'] = list(o['prior'].parameter_names)
                except Exception as e:
                    o['prior'] = None
                    o['params'] = P or []
                    o['raised'] = '%s: %s' % (type(e).__name__, str(e)[:100])
                    if P is None or is_closed(cur, P):
                        problems.append('ModelPrior(%r) raised %s' % (P, o['raised']))
                want = sorted(s['name'] for s in cur if s['kind'] == 'prior') if P is None else P
                if o['prior'] is not None and o['params'] != want:
                    problems.append('parameter_names %r, requested %r' % (o['params'], want))
                if snet_of_model(m) != o['snet']:
                    problems.append('building a ModelPrior changed the user model')
                if st.get('fresh_equivalent') and o['prior'] is not None:
                    # the same request on a model built from scratch with the edited specification
                    rec2 = Recorder()
                    m2 = build_row_model(cur, rec2)
                    o['fresh'] = dict(prior=ModelPrior(m2, parameter_names=P), snet=snet_of_model(m2), calls=[])
                objs.append(o)
            else:
                o = objs[st['obj']]
                if o['prior'] is None:
                    continue
                for tgt in (o, o['fresh']):
                    if tgt is None:
                        continue
                    x = make_input(st['shape'], st['data'], st['container'])
                    try:
                        val = tgt['prior']._evaluate_pdf(x, log=st['log'])
                        ans = self._answer(val)
                    except (ValueError, IndexError) as e:
                        if 'answer of type' in str(e):
                            raise
                        val, ans = None, None
                    tgt['calls'].append((st, ans))
                    if st['poison'] and isinstance(val, TA):
                        val.rows[:] = [POISON] * len(val.rows)          # the caller scribbles over the array it was given
                if o['fresh'] is not None and o['calls'][-1][1] != o['fresh']['calls'][-1][1]:
                    problems.append('answer %r differs from that of a freshly built equivalent model %r'
                                    % (o['calls'][-1][1], o['fresh']['calls'][-1][1]))
        epochs = []
        summary = []
        for o in objs:
            if o['prior'] is None:
                continue
            for tgt in (o, o['fresh']):
                if tgt is None:
                    continue
                cs = []
                for st, ans in tgt['calls']:
                    impl = 'None' if ans is None else '(Some (%s, %s))' % (clist([cnat(k) for k in ans[0]]), clist([cvalue(v) for v in ans[1]]))
                    cs.append('{| c_log := %s; c_shape := %s; c_data := %s; c_impl := %s |}'
                              % (cbool(st['log']), clist([cnat(k) for k in st['shape']]), clist([cz(z) for z in st['data']]), impl))
                epochs.append('{| e_model := %s; e_params := %s; e_calls := %s |}' % (tgt['snet'], clist([cstr(p) for p in o['params']]), clist(cs)))
                summary.append(dict(params=o['params'], answers=[None if a is None else [a[0], [jvalue(v) for v in a[1]]] for _, a in tgt['calls']]))
        return dict(mode='history', coq='(History %s)' % clist(epochs), problems=problems, objects=summary)

    # ---- histories, numeric ------------------------------------------------------------------------
    def _gen_numparam(self, r, i, name=None, far=False):
        dist = r.choice(list(DISTS))
        args = DISTS[dist](r)
        if far and dist != 'beta':
            args[0] = args[0] + r.choice([-100.0, 100.0])       # a support disjoint from every earlier one
        if i > 0 and dist in ('uniform', 'norm', 'expon') and r.random() < 0.5:
            args[0] = 'p%d' % r.randrange(i)                    # parameter-valued location (lower index: acyclic)
        return dict(name=name or 'p%d' % i, dist=dist, args=args)

    @staticmethod
    def _num_close(params, sub):
        byname = {p['name']: p for p in params}
        sub = list(sub)
        todo = list(sub)
        while todo:
            for a in byname[todo.pop()]['args']:
                if isinstance(a, str) and a not in sub:
                    sub.append(a)
                    todo.append(a)
        return sub

    def _gen_numcalls(self, r, ncalls):
        calls = []
        for j in range(ncalls):
            kind = r.choice(['pdf', 'pdf', 'logpdf', 'logpdf', 'grad', 'rvs'])
            u = r.random()
            c = dict(kind=kind, seed=r.randrange(2 ** 31), pick=r.random(), n=(1 if r.random() < 0.45 else r.randint(2, 4)),
                     where=r.choice(['inside', 'inside', 'outside', 'boundary']),
                     container=r.choice(['array', 'array', 'list', 'fortran', 'strided']),
                     mutate_result=r.random() < 0.5, scribble_input=r.random() < 0.3,
                     size=r.choice([None, 1, 3, 5]))
            if kind == 'rvs':
                c['data'] = 'n/a'
            elif j > 0 and u < 0.2:
                c['data'] = 'repeat'                # the previous evaluation again (same array contents and shape)
                c['kind'] = r.choice([calls[-1]['kind'], kind]) if calls[-1]['kind'] != 'rvs' else kind
            elif j > 0 and u < 0.6:
                c['data'] = 'same-bytes'            # the previous points, byte for byte, in another shape
                c['kind'] = r.choice([calls[-1]['kind'], calls[-1]['kind'], kind]) if calls[-1]['kind'] != 'rvs' else kind
            else:
                c['data'] = 'new'
            self.bump('numhist:call=%s' % c['kind'])
            self.bump('numhist:data=%s' % c['data'])
            calls.append(c)
        return calls

    def _gen_numhist(self, r):
        k = r.randint(1, 4)
        params = [self._gen_numparam(r, i) for i in range(k)]
        cur = [dict(p, args=list(p['args'])) for p in params]
        builds = []
        last = None
        for phase in range(r.randint(1, 3)):
            edits = []
            if phase > 0:
                for _ in range(r.randint(1, 2)):
                    u = r.random()
                    if u < 0.7 or len(cur) >= 5:
                        i = r.randrange(len(cur))
                        idx = int(cur[i]['name'][1:])
                        new = self._gen_numparam(r, 0, name=cur[i]['name'], far=r.random() < 0.3)
                        lower = [q['name'] for q in cur if int(q['name'][1:]) < idx]
                        if lower and new['dist'] != 'beta' and r.random() < 0.4:
                            new['args'][0] = r.choice(lower)
                        ed = dict(op='become', name=new['name'], dist=new['dist'], args=new['args'])
                        cur[i] = dict(name=new['name'], dist=new['dist'], args=list(new['args']))
                    else:
                        idx = 1 + max(int(q['name'][1:]) for q in cur)
                        new = self._gen_numparam(r, 0, name='p%d' % idx)
                        if r.random() < 0.5 and new['dist'] != 'beta':
                            new['args'][0] = r.choice([q['name'] for q in cur])
                        ed = dict(op='add', name=new['name'], dist=new['dist'], args=new['args'])
                        cur.append(dict(name=new['name'], dist=new['dist'], args=list(new['args'])))
                    edits.append(ed)
                    self.bump('numhist:edit=%s' % ed['op'])
            names = [q['name'] for q in cur]
            if last is not None and r.random() < 0.75 and set(self._num_close(cur, last)) == set(last):
                sub = last                      # the request of the previous build again
            elif r.random() < 0.3:
                sub = None
            else:
                sub = self._num_close(cur, r.sample(names, r.randint(1, len(names))))
                r.shuffle(sub)
            last = sub if sub is not None else sorted(names)
            builds.append(dict(edits=edits, subset=sub, calls=self._gen_numcalls(r, r.randint(3, 7))))
        self.bump('numhist')
        self.bump('numhist:builds=%d' % len(builds))
        return dict(mode='numhist', params=params, builds=builds)

    @staticmethod
    def _build_num_model(params, name='np'):
        import elfi
        m = elfi.ElfiModel(name=name)
        for p in sorted(params, key=lambda q: int(q['name'][1:])):
            elfi.Prior(p['dist'], *[m[a] if isinstance(a, str) else a for a in p['args']], name=p['name'], model=m)
        first = sorted(params, key=lambda q: int(q['name'][1:]))[0]['name']
        elfi.Simulator(lambda *a, batch_size=1, random_state=None: random_state.normal(size=batch_size), m[first],
                       name='sim', model=m, observed=np.array([0.0]))
        return m

    def _points(self, params, order, base, where, rs):
        """evaluation points: draws moved outside / onto the boundary of one factor's support"""
        byname = {p['name']: p for p in params}
        dim = len(order)
        pts = []
        for row in base:
            row = np.array(row, dtype=float)
            j = rs.randint(dim)
            pj = byname[order[j]]
            if where == 'outside':
                row[j] = {'uniform': -500.0, 'expon': -500.0, 'beta': 1.5, 'norm': 400.0}[pj['dist']]
            elif where == 'boundary':
                x = dict(zip(order, row))
                loc = pj['args'][0]
                loc = x[loc] if isinstance(loc, str) else loc
                if pj['dist'] == 'uniform':
                    row[j] = loc + (pj['args'][1] if rs.rand() < 0.5 else 0.0)
                elif pj['dist'] == 'expon':
                    row[j] = loc
                elif pj['dist'] == 'beta':
                    row[j] = 0.0 if rs.rand() < 0.5 else 1.0
            pts.append(row)
        return np.array(pts)

    def _run_numhist(self, case):
        import elfi
        from elfi.model.extensions import ModelPrior
        problems = []
        cur = [dict(p, args=list(p['args'])) for p in case['params']]
        m = self._build_num_model(cur)
        ntmp = 0
        ncalls = 0

        def same(a, b):
            a, b = np.asarray(a), np.asarray(b)
            return a.shape == b.shape and a.dtype == b.dtype and bool(np.array_equal(a, b, equal_nan=True))

        def close(a, b, tol=1e-9):
            return self._close(a, b, tol)

        for bi, b in enumerate(case['builds']):
            for ed in b['edits']:
                args = [m[a] if isinstance(a, str) else a for a in ed['args']]
                if ed['op'] == 'become':
                    ntmp += 1
                    m[ed['name']].become(elfi.Prior(ed['dist'], *args, name='tmp%d' % ntmp, model=m))
                    cur = [dict(name=ed['name'], dist=ed['dist'], args=list(ed['args'])) if q['name'] == ed['name'] else q for q in cur]
                else:
                    elfi.Prior(ed['dist'], *args, name=ed['name'], model=m)
                    cur.append(dict(name=ed['name'], dist=ed['dist'], args=list(ed['args'])))
            sub = b['subset']
            prior = ModelPrior(m, parameter_names=None if sub is None else list(sub))
            order = list(prior.parameter_names)
            want = sorted(q['name'] for q in cur) if sub is None else list(sub)
            if order != want:
                problems.append('build %d: parameter_names %r, requested %r' % (bi, order, want))
                break
            dim = len(order)
            equivalent = ModelPrior(self._build_num_model(cur, name='eq'), parameter_names=list(order)) if b['edits'] else None
            tag = 'build %d (after edits %r, parameters %r)' % (bi, b['edits'], order)
            prev = None          # (points (n, dim), shape handed over)
            for ci, c in enumerate(b['calls']):
                ncalls += 1
                rs = np.random.RandomState(c['seed'])
                fresh = ModelPrior(m.copy(), parameter_names=list(order))      # the reference: an object nobody has called yet
                where = '%s, call %d %s' % (tag, ci, {k: c[k] for k in ('kind', 'data', 'container')})
                if c['kind'] == 'rvs':
                    size = c['size']
                    got = prior.rvs(size=size, random_state=np.random.RandomState(c['seed']))
                    ref = fresh.rvs(size=size, random_state=np.random.RandomState(c['seed']))
                    exp_shape = (() if dim == 1 else (dim,)) if size is None else ((size,) if dim == 1 else (size, dim))
                    if np.shape(got) != exp_shape:
                        problems.append('%s: rvs(size=%r) has shape %r for dim %d' % (where, size, np.shape(got), dim))
                        continue
                    if not same(got, ref):
                        problems.append('%s: rvs(size=%r) %r differs from the draws of a fresh ModelPrior of the same model with the same '
                                        'random state %r' % (where, size, np.asarray(got).tolist(), np.asarray(ref).tolist()))
                    rows = np.asarray(got, dtype=float).reshape(-1, dim)
                    dens = np.array([self._direct(cur, order, dict(zip(order, row)), False) for row in rows])
                    if not np.all(dens > 0):
                        problems.append('%s: a draw %r has density %r under the conditional densities of the model' % (where, rows.tolist(), dens.tolist()))
                    if c['mutate_result'] and isinstance(got, np.ndarray) and got.ndim > 0:
                        got[...] = -12345.0
                    continue
                # ---- the points and the form they are handed over in
                forms = None
                if c['data'] in ('repeat', 'same-bytes') and prev is not None:
                    pts, pshape = prev
                    n = len(pts)
                    if c['data'] == 'repeat':
                        shape = pshape
                    else:
                        if dim == 1:
                            forms = [(n,), (n, 1)] + ([()] if n == 1 else [])
                        else:
                            forms = [(n, dim)] + ([(dim,)] if n == 1 else [])
                        forms = [f for f in forms if f != pshape] or [pshape]
                        shape = forms[int(c['pick'] * len(forms))]
                else:
                    n = c['n']
                    base = np.asarray(fresh.rvs(size=n, random_state=rs), dtype=float).reshape(n, dim)
                    pts = self._points(cur, order, base, c['where'], rs)
                    if dim == 1:
                        forms = [(), (n,), (n, 1)] if n == 1 else [(n,), (n, 1)]
                    else:
                        forms = [(dim,), (1, dim)] if n == 1 else [(n, dim)]
                    shape = forms[int(c['pick'] * len(forms))]
                x = make_input(list(shape), pts.reshape(-1).tolist(), c['container'])
                x_ref = make_input(list(shape), pts.reshape(-1).tolist(), c['container'])
                x_before = np.array(x, dtype=float, copy=True)
                single = (len(shape) == 0) or (len(shape) == 1 and dim > 1)
                exp_shape = () if single else (n,)
                self.bump('numhist:shape-ndim=%d' % len(shape))
                with np.errstate(all='ignore'):
                    if c['kind'] == 'grad':
                        got = prior.gradient_logpdf(x)
                        ref = fresh.gradient_logpdf(x_ref)
                    else:
                        got = getattr(prior, c['kind'])(x)
                        ref = getattr(fresh, c['kind'])(x_ref)
                prev = (pts, shape)
                if not same(np.array(x, dtype=float), x_before):
                    problems.append('%s: the array handed over was modified' % where)
                if not same(got, ref):
                    problems.append('%s: %s of input shape %r gives %r (shape %r); a fresh ModelPrior of the same model gives %r (shape %r)'
                                    % (where, c['kind'], shape, np.asarray(got).tolist(), np.shape(got), np.asarray(ref).tolist(), np.shape(ref)))
                if c['kind'] != 'grad':
                    log = c['kind'] == 'logpdf'
                    exp, exo = self._expected_rows(cur, order, pts, log)
                    exp, exo = (exp[0], exo[0]) if single else (exp, exo)
                    if np.shape(got) != exp_shape:
                        problems.append('%s: %s of %d point(s) given with shape %r has shape %r, expected %r'
                                        % (where, c['kind'], n, shape, np.shape(got), exp_shape))
                    else:
                        okv, known = self._against_oracle(got, exp, exo)
                        if not okv:
                            problems.append('%s: %s %r != product/sum of the conditional densities %r at %r'
                                            % (where, c['kind'], np.asarray(got).tolist(), np.asarray(exp).tolist(), pts.tolist()))
                        if known:
                            problems.append((KNOWN_ZTI, '%s: %s %r at %r: nan where one conditional density is zero and another is +inf; '
                                             'the property asks for %r' % (where, c['kind'], np.asarray(got).tolist(), pts.tolist(), np.asarray(exp).tolist())))
                        if equivalent is not None:
                            with np.errstate(all='ignore'):
                                eq = getattr(equivalent, c['kind'])(make_input(list(shape), pts.reshape(-1).tolist(), c['container']))
                            # positions of the known shape are nan on both sides and reported above; everywhere else nan never agrees
                            both = np.asarray(exo, dtype=bool) & np.isnan(np.asarray(got, dtype=float))
                            if np.shape(eq) != np.shape(got) or not self._against_oracle(np.where(both, 0.0, got), np.where(both, 0.0, eq), False, tol=1e-12)[0] \
                                    or np.any(both & ~np.isnan(np.asarray(eq, dtype=float))):
                                problems.append('%s: %s %r differs from %r given by a ModelPrior of a freshly built equivalent model'
                                                % (where, c['kind'], np.asarray(got).tolist(), np.asarray(eq).tolist()))
                if c['mutate_result'] and isinstance(got, np.ndarray) and got.ndim > 0:
                    got[...] = -12345.0              # the caller reuses the array it was given
                if c['scribble_input'] and isinstance(x, np.ndarray) and x.ndim > 0:
                    x[...] = 0.25                    # ... and the buffer it handed over
        return dict(mode='numhist', problems=problems, n_calls=ncalls, n_builds=len(case['builds']))

    # ---- gradient_logpdf on matrices, Coq side (wave 3) ---------------------------------------------
    GRAD_KINDS = ['inside', 'inside', 'inside', 'outside', 'boundary', 'near_in', 'near_in', 'near_out', 'tail']
    GRAD_DISTS = ['beta', 'beta', 'norm', 'norm', 'expon', 'uniform']
    GRAD_STEPS = [1e-4, 1e-5, 1e-6, 1e-7, 3e-5, 2.5e-6, 1e-3, 1e-2]

    def _gen_step(self, r, dim):
        u = r.random()
        if u < 0.3:
            kind, val = 'default', None
        elif u < 0.55:
            kind, val = 'scalar', r.choice(self.GRAD_STEPS)
        elif u < 0.65:
            kind, val = 'list1', [r.choice(self.GRAD_STEPS)]
        else:
            kind, val = 'per-dim', [r.choice(self.GRAD_STEPS) for _ in range(dim)]
        return dict(kind=kind, value=val, as_array=r.random() < 0.3)

    def _gen_gradient(self, r):
        k = r.randint(1, 4)
        params = []
        for i in range(k):
            dist = r.choice(self.GRAD_DISTS)
            args = DISTS[dist](r)
            if i > 0 and dist in ('uniform', 'norm', 'expon') and r.random() < 0.6:
                args[0] = 'p%d' % r.randrange(i)        # parameter-valued location (hierarchical)
            params.append(dict(name='p%d' % i, dist=dist, args=args))
        names = [p['name'] for p in params]
        sub = self._num_close(params, r.sample(names, r.randint(1, k)))
        r.shuffle(sub)
        dim = len(sub)
        n = r.choice([1, 2, 2, 3, 3, 4, 5, 6])
        rows = [dict(kind=r.choice(self.GRAD_KINDS), j=r.randrange(dim), side=r.random() < 0.5,
                     u=r.choice([0.25, 0.5, 0.999, 1.0, 1.001, 1.5, 3.0]), far=round(r.uniform(8, 30), 1)) for _ in range(n)]
        if n >= 2 and r.random() < 0.7:
            rows[0]['kind'] = 'inside'                  # mostly at least one row inside next to whatever the others are
        steps = [self._gen_step(r, dim)]
        if r.random() < 0.5:
            steps.append(self._gen_step(r, dim))
        perm = list(range(n))
        r.shuffle(perm)
        if dim == 1:
            mform = r.choice(['(n,)', '(n,1)'])
            rform = r.choice(['()', '(1,)', '(1,1)'])
        else:
            mform = '(n,dim)'
            rform = r.choice(['(dim,)', '(1,dim)'])
        self.bump('gradient')
        self.bump('grad:dim=%d' % dim)
        self.bump('grad:rows=%d' % n)
        for s in steps:
            self.bump('grad:step=%s' % s['kind'])
        for row in rows:
            self.bump('grad:row=%s' % row['kind'])
        kinds = {('in' if q['kind'] in ('inside', 'tail') else 'edge') for q in rows}
        self.bump('grad:mixed-matrix=%s' % (len(kinds) == 2))
        self.bump('grad:dists=%s' % '+'.join(sorted({p['dist'] for p in params if p['name'] in sub})))
        self.bump('grad:hierarchical=%s' % any(isinstance(a, str) for p in params for a in p['args']))
        return dict(mode='gradient', params=params, subset=sub, rows=rows, steps=steps, perm=perm[:r.randint(1, n)], mform=mform,
                    rform=rform, seed=r.randrange(2 ** 31), container=r.choice(['array', 'array', 'list', 'fortran', 'strided']))

    @staticmethod
    def _support(p, x):
        """(lower end, upper end) of the support of one conditional density at the point x (dict name -> value)"""
        loc = p['args'][0]
        loc = x[loc] if isinstance(loc, str) else loc
        if p['dist'] == 'uniform':
            return loc, loc + p['args'][1]
        if p['dist'] == 'expon':
            return loc, None
        if p['dist'] == 'beta':
            return 0.0, 1.0
        return None, None

    def _grad_points(self, params, order, base, rows, hs):
        """evaluation points: draws of which one coordinate is moved outside of, onto, or within about one step of the end of
        the support of its conditional density, or far into its tail"""
        byname = {p['name']: p for p in params}
        pts = []
        for row, q in zip(base, rows):
            row = np.array(row, dtype=float)
            j = q['j']
            pj = byname[order[j]]
            lo, hi = self._support(pj, dict(zip(order, row)))
            end, sign = (lo, 1.0) if (q['side'] or hi is None) else (hi, -1.0)      # sign: the direction into the support
            kind = q['kind']
            if lo is None and kind != 'inside':
                kind = 'tail'
            if kind == 'outside':
                row[j] = end - sign * (0.3 if pj['dist'] == 'beta' else 50.0)
            elif kind == 'boundary':
                row[j] = end
            elif kind == 'near_in':
                row[j] = end + sign * q['u'] * hs[j]
            elif kind == 'near_out':
                row[j] = end - sign * q['u'] * hs[j]
            elif kind == 'tail':
                loc = pj['args'][0]
                loc = dict(zip(order, row))[loc] if isinstance(loc, str) else loc
                if pj['dist'] == 'norm':
                    row[j] = loc + (1.0 if q['side'] else -1.0) * q['far'] * pj['args'][1]
                elif pj['dist'] == 'expon':
                    row[j] = loc + 20.0 * q['far'] * pj['args'][1]
            pts.append(row)
        return np.array(pts)

    @staticmethod
    def _analytic_gradient(params, order, x):
        """derivative of the sum of the conditional log densities at an interior point x (dict), one entry per name in order"""
        g = {nm: 0.0 for nm in order}
        for p in params:
            if p['name'] not in g:
                continue
            v, (a0, a1) = x[p['name']], p['args']
            loc = x[a0] if isinstance(a0, str) else a0
            if p['dist'] == 'norm':
                d = -(v - loc) / a1 ** 2
                g[p['name']] += d
                if isinstance(a0, str):
                    g[a0] -= d
            elif p['dist'] == 'expon':
                g[p['name']] += -1.0 / a1
                if isinstance(a0, str):
                    g[a0] += 1.0 / a1
            elif p['dist'] == 'beta':
                g[p['name']] += (a0 - 1.0) / v - (a1 - 1.0) / (1.0 - v)
        return [g[nm] for nm in order]

    def _run_gradient(self, case):
        import elfi
        from elfi.model.extensions import ModelPrior
        problems = []
        params = case['params']
        m = self._build_num_model(params)
        prior = ModelPrior(m, parameter_names=list(case['subset']))
        order = list(prior.parameter_names)
        dim = len(order)
        byname = {p['name']: p for p in params}
        rs = np.random.RandomState(case['seed'])
        n = len(case['rows'])
        base = np.asarray(prior.rvs(size=n, random_state=rs), dtype=float).reshape(n, dim)
        table = {}
        calls = []
        summary = []

        def stencil(x, h):
            """the evaluation points of numgrad for one point, and the log density of the object on them (one call, this
            point alone)"""
            X = np.zeros((dim * 3, dim))
            for i in range(3):
                Xi = np.tile(x, (dim, 1))
                np.fill_diagonal(Xi, Xi.diagonal() + (i - 1) * h)
                X[i * dim:(i + 1) * dim, :] = Xi
            with np.errstate(all='ignore'):
                f = np.asarray(prior.logpdf(X), dtype=float).reshape(-1)         # exactly numgrad's call
            for pt, v in zip(X, f):
                table.setdefault(tuple(float(t).hex() for t in pt), (pt.tolist(), float(v)))
            return f

        def call(pts, step, shape, container, label):
            x = make_input(list(shape), pts.reshape(-1).tolist(), container)
            sv = step['value']
            arg = None if sv is None else (np.array(sv, dtype=float) if step['as_array'] else sv)
            try:
                with np.errstate(all='ignore'):
                    got = prior.gradient_logpdf(x) if step['kind'] == 'default' else prior.gradient_logpdf(x, stepsize=arg)
                got = np.asarray(got)
                if got.dtype != np.float64:
                    problems.append('%s: gradient of dtype %s for a float64 input' % (label, got.dtype))
                impl = (list(got.shape), np.asarray(got, dtype=float).reshape(-1).tolist())
            except Exception as e:
                got, impl = None, None
                summary.append('%s raised %s: %s' % (label, type(e).__name__, str(e)[:80]))
            return got, impl

        for si, step in enumerate(case['steps']):
            hv = np.asarray(1e-5 if step['value'] is None else step['value'], dtype=float).reshape(-1)
            hs = np.broadcast_to(hv, (dim,))
            if si == 0:
                pts = self._grad_points(params, order, base, case['rows'], hs)
                idx = list(range(n))
            else:
                idx = list(case['perm'])                    # other stepsizes: some of the same rows in another order
            P = pts[idx]
            analytic = []
            for row in P:
                f = stencil(row, hv)
                x = dict(zip(order, row))
                vouch = bool(np.all(np.isfinite(f))) and bool(np.all((hs <= 1e-4) & (hs >= 1e-7))) and \
                    all(0.05 <= x[nm] <= 0.95 for nm in order if byname[nm]['dist'] == 'beta')
                an = self._analytic_gradient(params, order, x) if vouch else [None] * dim
                if vouch:
                    self.bump('grad:analytic-row')
                if np.any(np.isneginf(f)):
                    self.bump('grad:row-with-neginf-stencil')
                elif np.all(np.isfinite(f)):
                    self.bump('grad:row-finite-stencil')
                else:
                    self.bump('grad:row-nan-or-posinf-stencil')
                analytic.append(an)
            nn = len(P)
            mshape = {'(n,)': (nn,), '(n,1)': (nn, 1), '(n,dim)': (nn, dim)}[case['mform']]
            if nn == 1 and dim > 1 and rs.rand() < 0.5:
                mshape = (dim,)
            G, impl = call(P, step, mshape, case['container'], 'matrix call %d' % si)
            calls.append(dict(step=step, shape=list(mshape), data=P.reshape(-1).tolist(), analytic=[a for an in analytic for a in an], impl=impl))
            rshape = {'()': (), '(1,)': (1,), '(1,1)': (1, 1), '(dim,)': (dim,), '(1,dim)': (1, dim)}[case['rform']]
            for i, row in enumerate(P):
                g, impl_i = call(row[None, :], step, rshape, 'array', 'row %d of call %d alone' % (i, si))
                calls.append(dict(step=step, shape=list(rshape), data=row.tolist(), analytic=analytic[i], impl=impl_i))
                # bit-identity of the two runs (python side; the Coq side compares both with the model up to a tolerance)
                if G is not None and g is not None and G.size == nn * dim and g.size == dim:
                    Gi = np.asarray(G, dtype=float).reshape(nn, dim)[i]
                    if not np.array_equal(Gi, np.asarray(g, dtype=float).reshape(-1), equal_nan=True):
                        problems.append('gradient_logpdf(stepsize=%r) of the %d points %r: row %d is %r, the same point alone gives %r'
                                        % (step['value'], nn, P.tolist(), i, Gi.tolist(), np.asarray(g).reshape(-1).tolist()))
        tab = clist(['(%s, %s)' % (clist([cfloat(t) for t in pt]), cfloat(v)) for pt, v in table.values()])
        cs = []
        for c in calls:
            sv = c['step']['value']
            step = 'None' if sv is None else '(Some %s)' % clist([cfloat(t) for t in np.asarray(sv, dtype=float).reshape(-1)])
            impl = 'None' if c['impl'] is None else '(Some (%s, %s))' % (clist([cnat(k) for k in c['impl'][0]]), clist([cfloat(v) for v in c['impl'][1]]))
            cs.append('{| g_step := %s; g_shape := %s; g_data := %s; g_analytic := %s; g_impl := %s |}'
                      % (step, clist([cnat(k) for k in c['shape']]), clist([cfloat(t) for t in c['data']]),
                         clist(['None' if a is None else '(Some %s)' % cfloat(a) for a in c['analytic']]), impl))
        coq = '(Gradient {| gc_dim := %s; gc_table := %s; gc_calls := %s |})' % (cnat(dim), tab, clist(cs))
        return dict(mode='gradient', coq=coq, problems=problems, order=order, n_calls=len(calls), n_rows=n, notes=summary,
                    answers=[c['impl'] for c in calls], points=pts.tolist())

    # ---- driver ------------------------------------------------------------------------------------
    def run_impl(self, case):
        if case['mode'] == 'symbolic':
            return self._run_symbolic(case)
        if case['mode'] == 'history':
            return self._run_history(case)
        if case['mode'] == 'numhist':
            return self._run_numhist(case)
        if case['mode'] == 'gradient':
            return self._run_gradient(case)
        return self._run_numeric(case)

    def py_check(self, case, out):
        clause = {'numhist': 'history-numeric', 'history': 'history-symbolic', 'gradient': 'gradient-rows'}.get(case['mode'], 'numeric')
        ps = out.get('problems', [])
        known = [p for p in ps if isinstance(p, tuple)]          # (finding key, message): only the exact shape of a known finding
        real = [p for p in ps if not isinstance(p, tuple)]
        return [(clause, p) for p in real[:3]] + [(k, m) for k, m in known[:1]]

    def classify(self, case, out, clause):
        return KNOWN_ZTI if clause == KNOWN_ZTI else None

    def nontrivial(self, case, out):
        if case['mode'] == 'symbolic':
            if len(case['params']) < 2:
                return None
        elif case['mode'] == 'history':
            calls = [s for s in case['steps'] if s['step'] == 'call']
            if not any(s['step'] == 'edit' for s in case['steps']) and len(calls) < 2:
                return None
        elif case['mode'] == 'numhist':
            if out.get('n_calls', 0) < 2:
                return None
        elif case['mode'] == 'gradient':
            if out.get('n_rows', 0) < 2:
                return None
        else:
            if len(out.get('order', [])) < 2 and not any(isinstance(a, str) for p in case['params'] for a in p['args']):
                return None
        return json.dumps(case, sort_keys=True)

    def to_coq(self, case, out):
        return out.get('coq')


if __name__ == '__main__':
    sys.exit(run_check(C08))
