"""C08 — the joint model prior: correspondence with coq/Graph/Prior.v plus numeric comparison with scipy."""
import numpy as np
import scipy.stats as ss
from common import *
from graphgen import *


class Col:
    """marker for a supplied parameter column inside symbolic terms"""
    pass


def sym_value(v, cols):
    """numpy columns handed to the recording pdf methods -> the VConst code of that column"""
    if isinstance(v, T):
        return T((v[0], v[1], tuple(sym_value(a, cols) for a in v[2]), v[3]))
    if isinstance(v, np.ndarray):
        for code, col in cols:
            if v.shape == col.shape and np.array_equal(v, col):
                return code
        raise ValueError('unknown array argument')
    return v


DISTS = {
    'uniform': lambda r: [round(r.uniform(-2, 2), 2), round(r.uniform(0.5, 3), 2)],
    'norm': lambda r: [round(r.uniform(-2, 2), 2), round(r.uniform(0.3, 2), 2)],
    'expon': lambda r: [round(r.uniform(-1, 1), 2), round(r.uniform(0.5, 2), 2)],
    'beta': lambda r: [round(r.uniform(0.6, 4), 2), round(r.uniform(0.6, 4), 2)],
}


class C08(PropCheck):
    pid = 'C08'
    header = ('From Coq Require Import List String ZArith Bool.\n'
              'From Elfi Require Import Base.Harness Graph.Net Graph.Edit Graph.Prior.\nImport ListNotations.\n')
    case_type = 'Prior.case'
    preds = (('Prior.agree', 'agree'), ('Prior.ok', 'ok'))
    chunk = 100
    build_targets = ('Graph/Prior.vo',)
    rule = ('(a) symbolic: random hierarchical models (priors whose arguments are constants or other priors, plus unrelated nodes) '
            'built with recording distributions; ModelPrior over a random parameter subset/order (closed under parameter parents, and '
            'a malformed share that is not); the real add_pdf_nodes result and the symbolic value of _evaluate_pdf/logpdf are compared '
            'with the Coq model and with the product/sum specification; (b) numeric: scipy priors (uniform/norm/expon/beta, constant or '
            'parameter-valued arguments), pdf/logpdf/rvs/gradient_logpdf against scipy evaluated directly at points inside, outside and '
            'on the boundary of the support, scalar/vector/matrix shaped inputs; non-trivial = at least two requested parameters or a '
            'parameter-valued argument; distinct by (model, subset, order, point)')
    trusted = ('scipy.stats densities as oracles for the numeric comparison', 'finite-difference accuracy is not proved (stencil identity is checked exactly)')

    def generate(self):
        n = 160 if self.tier == 'quick' else 2500
        r = self.rng
        for i in range(n):
            if i % 2 == 0:
                yield self._gen_symbolic(r)
            else:
                yield self._gen_numeric(r)

    # ---- symbolic ----------------------------------------------------------------------------------
    def _gen_symbolic(self, r):
        k = r.randint(2, 7)
        names = r.sample(NAME_POOL, k)
        spec = []
        for i, nm in enumerate(names):
            prev = spec[:]
            if i == 0 or r.random() < 0.3:
                kind = 'const'
            elif r.random() < 0.75:
                kind = 'prior'
            else:
                kind = 'sim'
            cands = [p for p in prev if p['kind'] in ('const', 'prior')]
            npar = 0 if kind == 'const' else r.randint(0, min(3, len(cands)))
            pars = r.sample(cands, npar)
            spec.append(dict(name=nm, kind=kind, parents=[[p['name'], j] for j, p in enumerate(pars)], named=[],
                             value=(100 + i) if kind == 'const' else None, observed=None, uses_meta=False))
        priors = [s['name'] for s in spec if s['kind'] == 'prior']
        if not priors:
            spec.append(dict(name='pz', kind='prior', parents=[], named=[], value=None, observed=None, uses_meta=False))
            priors = ['pz']
        closed = r.random() < 0.85
        sub = r.sample(priors, r.randint(1, len(priors)))
        if closed:
            # close under parameter parents
            byname = {s['name']: s for s in spec}
            todo = list(sub)
            while todo:
                p = todo.pop()
                for q, _ in byname[p]['parents']:
                    if byname[q]['kind'] == 'prior' and q not in sub:
                        sub.append(q)
                        todo.append(q)
        r.shuffle(sub)
        self.bump('symbolic')
        self.bump('closed=%s' % closed)
        self.bump('n_params=%d' % len(sub))
        return dict(mode='symbolic', spec=spec, params=sub, log=r.random() < 0.5)

    def _run_symbolic(self, case):
        import elfi
        from elfi.model import augmenter
        from elfi.model.extensions import ModelPrior
        rec = Recorder()
        m, refs = build_model(case['spec'], rec)
        P = list(case['params'])
        log = case['log']
        model_snet = snet_of_model(m)
        # the real augmentation, on a copy, for introspection
        m2 = m.copy()
        jn = augmenter.add_pdf_nodes(m2, log=log, nodes=P)[0]
        aug = snet_of_model(m2).replace(cstr(jn), cstr('_joint'))
        # evaluation through ModelPrior
        x = np.array([[7000.0 + i, 8000.0 + i] for i in range(len(P))]).T     # two rows, one column per parameter
        cols = [(7000 + i, x[:, i]) for i in range(len(P))]
        try:
            prior = ModelPrior(m, parameter_names=P)
            val = prior._evaluate_pdf(x, log=log)
            impl = cvalue(sym_value(val, cols))
            impl_coq = '(Some %s)' % impl
            impl_j = jvalue(sym_value(val, cols))
        except Exception as e:
            impl_coq = 'None'
            impl_j = 'raised %s: %s' % (type(e).__name__, str(e)[:100])
        point = clist(['(%s, VConst %s)' % (cstr(p), cz(7000 + i)) for i, p in enumerate(P)])
        coq = ('{| p_model := %s; p_params := %s; p_log := %s; p_augmented := %s; p_point := %s; p_impl := %s |}'
               % (model_snet, clist([cstr(p) for p in P]), cbool(log), aug, point, impl_coq))
        return dict(mode='symbolic', impl=impl_j, coq=coq, problems=[])

    # ---- numeric -----------------------------------------------------------------------------------
    def _gen_numeric(self, r):
        k = r.randint(1, 4)
        params = []
        for i in range(k):
            dist = r.choice(list(DISTS))
            args = DISTS[dist](r)
            if i > 0 and dist in ('uniform', 'norm', 'expon') and r.random() < 0.5:
                args[0] = 'p%d' % r.randrange(i)        # parameter-valued location
            params.append(dict(name='p%d' % i, dist=dist, args=args))
        names = [p['name'] for p in params]
        sub = r.sample(names, r.randint(1, k))
        byname = {p['name']: p for p in params}
        todo = list(sub)
        while todo:
            p = todo.pop()
            for a in byname[p]['args']:
                if isinstance(a, str) and a not in sub:
                    sub.append(a)
                    todo.append(a)
        r.shuffle(sub)
        self.bump('numeric')
        self.bump('n_params=%d' % len(sub))
        return dict(mode='numeric', params=params, subset=(None if r.random() < 0.3 and len(sub) == k else sub),
                    seed=r.randrange(2 ** 31), kinds=[r.choice(['inside', 'inside', 'outside', 'boundary']) for _ in range(4)])

    @staticmethod
    def _direct(params, order, x, log):
        """product (sum of logs) of scipy conditional densities at the point x (dict name -> float)"""
        byname = {p['name']: p for p in params}
        tot = 0.0 if log else 1.0
        for nm in order:
            p = byname[nm]
            args = [x[a] if isinstance(a, str) else a for a in p['args']]
            d = getattr(ss, p['dist'])
            if log:
                tot = tot + d.logpdf(x[nm], *args)
            else:
                tot = tot * d.pdf(x[nm], *args)
        return tot

    def _run_numeric(self, case):
        import elfi
        from elfi.model.extensions import ModelPrior
        problems = []
        params = case['params']
        m = elfi.ElfiModel(name='np')
        refs = {}
        for p in params:
            args = [refs[a] if isinstance(a, str) else a for a in p['args']]
            refs[p['name']] = elfi.Prior(p['dist'], *args, name=p['name'], model=m)
        # something unrelated downstream
        elfi.Simulator(lambda *a, batch_size=1, random_state=None: random_state.normal(size=batch_size), refs[params[0]['name']],
                       name='sim', model=m, observed=np.array([0.0]))
        sub = case['subset']
        prior = ModelPrior(m, parameter_names=sub)
        order = prior.parameter_names
        dim = len(order)
        rs = np.random.RandomState(case['seed'])
        byname = {p['name']: p for p in params}

        def close(a, b, tol=1e-9):
            a, b = np.asarray(a, dtype=float), np.asarray(b, dtype=float)
            if a.shape != b.shape:
                return False
            same_inf = (np.isinf(a) & np.isinf(b) & (np.sign(a) == np.sign(b)))
            with np.errstate(invalid='ignore'):
                return bool(np.all(same_inf | (np.abs(a - b) <= tol * np.maximum(1.0, np.abs(b)))))

        # draws have positive density; shapes of rvs
        draws = prior.rvs(size=5, random_state=rs)
        if np.shape(draws) != ((5,) if dim == 1 else (5, dim)):
            problems.append('rvs(size=5) has shape %r for dim %d' % (np.shape(draws), dim))
        one = prior.rvs(random_state=rs)
        if np.shape(one) != (() if dim == 1 else (dim,)):
            problems.append('rvs() has shape %r for dim %d' % (np.shape(one), dim))
        d2 = np.asarray(draws, dtype=float).reshape(5, dim)
        pd = np.asarray(prior.pdf(draws if dim > 1 else d2[:, 0])).reshape(-1)
        if not np.all(pd > 0):
            problems.append('a draw from the prior has density %r' % pd.tolist())
        # evaluation points
        pts = []
        for kind, row in zip(case['kinds'], d2):
            row = row.copy()
            if kind == 'outside':
                j = rs.randint(dim)
                pj = byname[order[j]]
                row[j] = {'uniform': -50.0, 'expon': -50.0, 'beta': 1.5, 'norm': 40.0}[pj['dist']]
            elif kind == 'boundary':
                j = rs.randint(dim)
                pj = byname[order[j]]
                x = dict(zip(order, row))
                loc = pj['args'][0]
                loc = x[loc] if isinstance(loc, str) else loc
                if pj['dist'] == 'uniform':
                    row[j] = loc + (pj['args'][1] if rs.rand() < 0.5 else 0.0)
                elif pj['dist'] == 'expon':
                    row[j] = loc
                elif pj['dist'] == 'beta':
                    row[j] = 0.0 if rs.rand() < 0.5 else 1.0
            pts.append(row)
        pts = np.array(pts)
        exp_pdf = np.array([self._direct(params, order, dict(zip(order, row)), False) for row in pts])
        exp_log = np.array([self._direct(params, order, dict(zip(order, row)), True) for row in pts])
        with np.errstate(all='ignore'):
            got_pdf = np.asarray(prior.pdf(pts if dim > 1 else pts[:, 0]))
            got_log = np.asarray(prior.logpdf(pts if dim > 1 else pts[:, 0]))
        if not close(got_pdf, exp_pdf):
            problems.append('pdf %r != product of conditional densities %r at %r (order %r)' % (got_pdf.tolist(), exp_pdf.tolist(), pts.tolist(), order))
        if not close(got_log, exp_log):
            problems.append('logpdf %r != sum of conditional log densities %r' % (got_log.tolist(), exp_log.tolist()))
        if got_pdf.shape == exp_pdf.shape and np.any((got_pdf == 0) != (exp_pdf == 0)):
            problems.append('pdf zero pattern differs from the factors: %r vs %r' % (got_pdf.tolist(), exp_pdf.tolist()))
        if got_log.shape == exp_log.shape and np.any(np.isneginf(got_log) != np.isneginf(exp_log)):
            problems.append('logpdf -inf pattern differs: %r vs %r' % (got_log.tolist(), exp_log.tolist()))
        # shapes: a single point
        with np.errstate(all='ignore'):
            p0 = prior.pdf(pts[0] if dim > 1 else pts[0, 0])
            l0 = prior.logpdf(pts[0] if dim > 1 else pts[0, 0])
            p2 = prior.pdf(pts[:1] if dim > 1 else pts[:1, :])
        if np.ndim(p0) != 0 or np.ndim(l0) != 0:
            problems.append('single point gives pdf of shape %r / logpdf of shape %r' % (np.shape(p0), np.shape(l0)))
        elif not (close(p0, exp_pdf[0]) and close(l0, exp_log[0])):
            problems.append('single point value %r / %r differs from %r / %r' % (p0, l0, exp_pdf[0], exp_log[0]))
        if np.shape(p2) != (1,):
            problems.append('2-d input with one row gives shape %r' % (np.shape(p2),))
        # gradient: equals the central-difference stencil of its own logpdf, zero when the stencil leaves the support,
        # and agrees with the analytic derivative at interior points
        h = 1e-5
        for row in pts[:2]:
            with np.errstate(all='ignore'):
                g = np.asarray(prior.gradient_logpdf(row if dim > 1 else row[0]))
                lp = [[prior.logpdf(row + s * h * np.eye(dim)[j]) if dim > 1 else prior.logpdf(row[0] + s * h) for j in range(dim)] for s in (-1, 1)]
                stencil_vals = np.array(lp, dtype=float)
                centre = prior.logpdf(row if dim > 1 else row[0])
            if np.shape(g) != (() if dim == 1 and np.ndim(g) == 0 else (dim,)) and np.shape(g) != (dim,):
                problems.append('gradient_logpdf shape %r for dim %d' % (np.shape(g), dim))
                continue
            g = np.asarray(g, dtype=float).reshape(-1)
            if np.any(np.isneginf(stencil_vals)) or np.isneginf(centre):
                if not np.all(g == 0):
                    problems.append('gradient %r is not zero although the stencil leaves the support' % g.tolist())
            else:
                fd = (stencil_vals[1] - stencil_vals[0]) / (2 * h)
                if not close(g, fd, tol=1e-6):
                    problems.append('gradient %r != central difference %r of logpdf' % (g.tolist(), fd.tolist()))
        return dict(mode='numeric', problems=problems, order=order, n_points=len(pts))

    # ---- driver ------------------------------------------------------------------------------------
    def run_impl(self, case):
        if case['mode'] == 'symbolic':
            return self._run_symbolic(case)
        return self._run_numeric(case)

    def py_check(self, case, out):
        return [('numeric', p) for p in out.get('problems', [])[:3]]

    def nontrivial(self, case, out):
        if case['mode'] == 'symbolic':
            if len(case['params']) < 2:
                return None
        else:
            if len(out.get('order', [])) < 2 and not any(isinstance(a, str) for p in case['params'] for a in p['args']):
                return None
        return json.dumps(case, sort_keys=True)

    def to_coq(self, case, out):
        return out.get('coq')


if __name__ == '__main__':
    sys.exit(run_check(C08))
