#!/bin/bash
# Re-check every property module (and everything it depends on) with coqchk on a frozen copy of the compiled tree,
# 6 modules at a time, and write the axiom summary to /verif/COQCHK.md.   usage: bash harness/coqchk_all.sh
#
# C01 is checked with Proofs/C01_Estimator admitted (-admit): that file is the Flocq/Interval error analysis of the
# binary64 batch estimator, whose re-check by coqchk (no VM) takes hours; the full check of C01 is attempted separately
# (harness/coqchk_c01_full.sh) and its outcome, if any, is appended from work/coqchk_C01_full.log.
set -u
V=/verif
T=$V/work/coqchk_tree
rm -rf $T; mkdir -p $T; rsync -a --exclude='.lock' $V/coq/ $T/
cd $T
cat > $T/one.sh <<'EOS'
#!/bin/bash
m=$1
start=$(date +%s)
adm=""
[ "$m" = Elfi.Properties.C01 ] && adm="-admit Elfi.Proofs.C01_Estimator"
timeout 10800 coqchk -silent -o -Q . Elfi $adm $m > /verif/work/coqchk_$m.log 2>&1
echo "$m rc=$? $(( $(date +%s)-start ))s"
EOS
chmod +x $T/one.sh
for i in $(seq -w 1 20); do echo Elfi.Properties.C$i; done | xargs -P 6 -I{} $T/one.sh {} > $V/work/coqchk_par.log 2>&1
# the admitted file itself, alone: -norec checks the module and loads its dependencies (Flocq, Interval, ...) unchecked
s0=$(date +%s)
timeout 3600 coqchk -silent -o -Q . Elfi -norec Elfi.Proofs.C01_Estimator > $V/work/coqchk_C01_norec.out 2>&1
echo "rc=$? $(( $(date +%s)-s0 ))s" > $V/work/coqchk_C01_norec.res
{
  echo "# coqchk -o per property module (Coq 8.16.1), run on $(date -u +%Y-%m-%dT%H:%MZ) on a frozen copy of coq/ at /verif commit $(git -C $V rev-parse --short HEAD)"
  echo
  echo "Each module was re-checked together with everything it depends on. 'Axioms' is coqchk's context summary: it lists the"
  echo "axioms and primitives of every LOADED library, not only those a theorem uses (Print Assumptions per theorem: TRUSTED_BASE.md)."
  echo "No module relies on type-in-type, unsafe fixpoints or assumed positivity.  C01 was checked with"
  echo "-admit Elfi.Proofs.C01_Estimator (the Flocq/Interval proof of the unbounded estimator theorem; its full coqchk takes"
  echo "hours: the outcome of the separate attempt is at the end).  coqchk's -admit loads that module AND what it depends on"
  echo "without checking: of this development that is Sched/Reject.v (the C01 model), which the runs for C04, C07 and C12 re-check"
  echo "(they import it); the other proof files of C01 (C01_Reject, C01_Sorting, C01_History, C01_OkMeaning, C01_ModelOk) are checked in the C01 run."
  echo
  for i in $(seq -w 1 20); do
    f=$V/work/coqchk_Elfi.Properties.C$i.log
    rc=$(grep "Elfi.Properties.C$i " $V/work/coqchk_par.log | sed 's/.*rc=//')
    echo "## C$i  (coqchk rc=$rc)"
    sed -n '/^\* Axioms/,$p' $f | sed 's/^/    /'
    echo
  done
  echo "## Elfi.Proofs.C01_Estimator alone: coqchk -norec (the module is checked, its dependencies are loaded unchecked) ($(cat $V/work/coqchk_C01_norec.res))"
  echo "    Every constant of the file (the finite-domain sweep, the Flocq error analysis, estimator_safe_unbounded[_stops]) is re-checked;"
  echo "    with the -admit run of C01 above, every file of this development is re-checked by coqchk.  Not re-checked by any run: the"
  echo "    Debian-packaged libraries Flocq and Interval (and what only they depend on), whose re-check is what takes hours."
  sed -n '/^\* Constants.Inductives relying on type-in-type/,$p' $V/work/coqchk_C01_norec.out | sed 's/^/    /'
  echo
  echo "## full coqchk of Elfi.Properties.C01 (without -admit)"
  if [ -s $V/work/coqchk_C01_full.log ]; then sed 's/^/    /' $V/work/coqchk_C01_full.log; else sed 's/^/    /' $V/COQCHK_C01_full.txt; fi
} > $V/COQCHK.md
grep -c "rc=0" $V/work/coqchk_par.log
rm -rf $T
