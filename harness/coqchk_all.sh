#!/bin/bash
# Re-check every property module (and everything it depends on) with coqchk on a frozen copy of the compiled tree,
# 6 modules at a time, and write the axiom summary to /verif/COQCHK.md.   usage: bash harness/coqchk_all.sh
set -u
V=/verif
T=$V/work/coqchk_tree
rm -rf $T; mkdir -p $T; rsync -a --exclude='.lock' $V/coq/ $T/
cd $T
for i in $(seq -w 1 20); do echo Elfi.Properties.C$i; done | xargs -P 6 -I{} bash -c "start=\$(date +%s); timeout 10800 coqchk -silent -o -Q . Elfi {} > $V/work/coqchk_{}.log 2>&1; echo \"{} rc=\$? \$(( \$(date +%s)-start ))s\"" > $V/work/coqchk_par.log 2>&1
{
  echo "# coqchk -o per property module (Coq 8.16.1), run on $(date -u +%Y-%m-%dT%H:%MZ) on a frozen copy of coq/ at /verif commit $(git -C $V rev-parse --short HEAD)"
  echo
  echo "Each module was re-checked together with everything it depends on. 'Axioms' is coqchk's context summary: it lists the"
  echo "axioms and primitives of every LOADED library, not only those a theorem uses (Print Assumptions per theorem: TRUSTED_BASE.md)."
  echo "No module relies on type-in-type, unsafe fixpoints or assumed positivity."
  echo
  for i in $(seq -w 1 20); do
    f=$V/work/coqchk_Elfi.Properties.C$i.log
    rc=$(grep "Elfi.Properties.C$i " $V/work/coqchk_par.log | sed 's/.*rc=//')
    echo "## C$i  (coqchk rc=$rc)"
    sed -n '/^\* Axioms/,$p' $f | sed 's/^/    /'
    echo
  done
} > $V/COQCHK.md
grep -c "rc=0" $V/work/coqchk_par.log
rm -rf $T
