"""C14 — editing, copying and saving a model: correspondence with coq/Graph/Edit.v."""
import pickle
from common import *
from graphgen import *


def cstate(n, st):
    out = st.get('_output') if '_output' in st else None
    return ('{| s_output := %s; s_has_op := %s; s_stochastic := %s; s_observable := %s; s_uses_observed := %s; '
            's_uses_batch_size := %s; s_uses_meta := %s; s_parameter := %s; s_opid := %s |}'
            % ('None' if '_output' not in st else '(Some %s)' % cvalue(out), cbool('_operation' in st),
               cbool('_stochastic' in st), cbool(bool(st.get('_observable'))), cbool(bool(st.get('_uses_observed'))),
               cbool(bool(st.get('_uses_batch_size'))), cbool(bool(st.get('_uses_meta'))), cbool('_parameter' in st),
               cstr(opid_of_state(n, st))))


KIND_FLAGS = dict(const={}, op={}, prior={}, sim={}, summary={}, disc={})

# in-place writes to one node state through a reference: flag -> (state key, Coq constructor)
FLAGS = dict(uses_meta=('_uses_meta', 'FUsesMeta'), uses_batch_size=('_uses_batch_size', 'FUsesBatchSize'),
             uses_observed=('_uses_observed', 'FUsesObserved'), parameter=('_parameter', 'FParameter'))


class C14(PropCheck):
    pid = 'C14'
    header = ('From Coq Require Import List String ZArith Bool.\n'
              'From Elfi Require Import Base.Harness Graph.Net Graph.Edit.\nImport ListNotations.\n')
    case_type = 'Edit.case'
    preds = (('Edit.agree', 'agree'), ('Edit.ok', 'ok'), ('Edit.ok_strict', 'ok'))

    def classify(self, case, out, clause):
        if clause == 'Edit.ok_strict':
            return 'become-onto-descendant'
        return None
    chunk = 60
    build_targets = ('Graph/Edit.vo',)
    rule = ('random edit scripts (7-18 operations and more: a copy is mostly followed by extra state writes) through the real API on several live models: node creation with positional parents '
            '(incl. private "_" constants), add_edge (default and explicit params), remove_node, NodeReference.become, parameter_names '
            'setter, observed data changes, in-place writes to one node state through a reference (model[n].uses_meta = b as '
            'elfi/examples/bdm.py does, model.get_state(n)["attr_dict"][key] = b and model.source_net.nodes[n]["attr_dict"][key] = b '
            'for _uses_meta / _uses_batch_size / _uses_observed, _parameter set / popped as Prior.__init__ does; on any live model, '
            'mostly right after a copy / reload on the source or on the new model), copy(), save()+load(); after every operation every live model is dumped (nodes, states, '
            'edges, observed, parameter_names) and at the end every live model generates all nodes with one seed; malformed stream: '
            'become onto a descendant, removing missing nodes, duplicate names; non-trivial = script with a become or remove or an '
            'edit after a copy that did not raise; distinct by script')
    trusted = ('pickle of recording callables is the identity on models (save/load sampled, not proved)',)

    # ---------------------------------------------------------------------------------------------
    def generate(self):
        n = 110 if self.tier == 'quick' else 2000
        r = self.rng
        for i in range(n):
            ops = []
            live = [dict(nodes={}, order=[])]      # python-side shadow only to generate sensible scripts
            k = r.randint(7, 18)
            malformed = r.random() < 0.12
            counter = 0
            while len(ops) < k:
                h = r.randrange(len(live))
                sh = live[h]
                names = list(sh['order'])
                choice = r.random()
                if len(names) < 2 or choice < 0.37:
                    counter += 1
                    pool = [x for x in NAME_POOL if x not in sh['nodes']]
                    if not pool:
                        continue
                    nm = r.choice(pool)
                    if r.random() < 0.25:
                        nm = '_' + nm            # private node
                    kind = r.choice(['const', 'const', 'op', 'prior', 'sim', 'summary', 'disc']) if names else 'const'
                    if nm.startswith('_'):
                        kind = 'const'
                    npar = 0 if kind == 'const' else r.randint(1 if kind in ('summary', 'disc') else 0, min(3, len(names)))
                    parents = r.sample(names, npar)
                    obs = (1000 + counter) if kind in ('sim', 'summary') and r.random() < 0.5 else None
                    ops.append(dict(op='add', h=h, name=nm, kind=kind, parents=parents, value=100 + counter, observed=obs))
                    sh['nodes'][nm] = kind
                    sh['order'].append(nm)
                elif choice < 0.46:
                    nm = r.choice(names)
                    ops.append(dict(op='remove', h=h, name=nm))
                    # shadow: approximate (private orphans may also go) -- refreshed from impl is not possible here
                    sh['nodes'].pop(nm, None)
                    sh['order'].remove(nm)
                elif choice < 0.59:
                    a, b = r.sample(names, 2)
                    if not malformed and names.index(a) < names.index(b):
                        # replacement created later than the replaced node is more likely a descendant: prefer older -> newer
                        pass
                    ops.append(dict(op='become', h=h, name=a, other=b))
                    sh['nodes'][a] = sh['nodes'].get(b)
                    sh['nodes'].pop(b, None)
                    sh['order'].remove(b)
                elif choice < 0.66:
                    a, b = r.sample(names, 2)
                    if names.index(a) > names.index(b):
                        a, b = b, a
                    par = r.choice([None, None, 'kw_' + a, r.randint(0, 5)])
                    if isinstance(par, str) and sh['nodes'].get(b) not in ('op', 'sim', 'summary'):
                        par = None      # only the recording operations accept arbitrary keyword arguments
                    ops.append(dict(op='edge', h=h, parent=a, child=b, param=par))
                elif choice < 0.73:
                    ps = r.sample(names, r.randint(0, min(3, len(names))))
                    if malformed and r.random() < 0.3:
                        ps.append('nosuch')
                    ops.append(dict(op='params', h=h, names=ps))
                elif choice < 0.79:
                    ops.append(dict(op='observed', h=h, name=r.choice(names), value=2000 + len(ops)))
                elif choice < 0.87:
                    ops.append(self._flag_op(r, h, sh, malformed))
                else:
                    ops.append(dict(op='copy' if choice < 0.96 else 'saveload', h=h))
                    live.append(dict(nodes=dict(sh['nodes']), order=list(sh['order'])))
                    # a copy is there to be changed: mostly follow it by in-place state writes on the new model and /
                    # or on its source (before any other edit un-shares anything)
                    for hh in r.sample([h, len(live) - 1], 2):
                        if r.random() < 0.45:
                            ops.append(self._flag_op(r, hh, live[hh], malformed))
            if malformed and r.random() < 0.5:
                ops.insert(r.randrange(len(ops)), dict(op='remove', h=0, name='nosuch'))
            seen_copy = False
            for o in ops:
                self.bump('op=' + o['op'])
                if o['op'] == 'flag':
                    self.bump('flag=%s/%s/%s' % (o['flag'], o['route'], o['value']))
                    self.bump('flag_after_copy=%s' % seen_copy)
                seen_copy = seen_copy or o['op'] in ('copy', 'saveload')
            self.bump('malformed=%s' % malformed)
            yield dict(ops=ops, seed=r.randrange(2 ** 31))

    def _flag_op(self, r, h, sh, malformed):
        """an in-place write to one node state of live model h, through one of the reference routes"""
        names = list(sh['order'])
        # flags the recording operations tolerate are preferred on nodes that (by the shadow) carry one
        recs = [x for x in names if sh['nodes'].get(x) in ('op', 'sim', 'summary', 'disc')]
        flag = r.choice(['uses_meta', 'uses_meta', 'uses_meta', 'uses_batch_size', 'uses_observed', 'parameter'])
        pool = names if flag == 'parameter' or not recs or r.random() < 0.1 else recs
        nm = 'nosuch' if (malformed and r.random() < 0.15) or not pool else r.choice(pool)
        route = r.choice(['ref', 'ref', 'get_state', 'source_net']) if flag == 'uses_meta' else r.choice(['get_state', 'source_net', 'ref_item'])
        return dict(op='flag', h=h, name=nm, flag=flag, value=r.random() < 0.7, route=route)

    # ---------------------------------------------------------------------------------------------
    def _apply(self, models, rec, o):
        import elfi
        m = models[o['h']]
        k = o['op']
        if k == 'add':
            ps = [m[p] for p in o['parents']]
            nm, kind = o['name'], o['kind']
            if kind == 'const':
                elfi.Constant(o['value'], name=nm, model=m)
            elif kind == 'op':
                elfi.Operation(rec_op(rec, nm), *ps, name=nm, model=m)
            elif kind == 'prior':
                elfi.Prior(RecDist(rec, nm), *ps, name=nm, model=m)
            elif kind == 'sim':
                elfi.Simulator(rec_op(rec, nm), *ps, name=nm, model=m, observed=o['observed'])
            elif kind == 'summary':
                elfi.Summary(rec_op(rec, nm), *ps, name=nm, model=m, observed=o['observed'])
            elif kind == 'disc':
                elfi.Discrepancy(rec_op(rec, nm), *ps, name=nm, model=m)
        elif k == 'remove':
            m.remove_node(o['name'])
        elif k == 'become':
            m[o['name']].become(m[o['other']])
        elif k == 'edge':
            m.add_edge(o['parent'], o['child'], o['param'])
        elif k == 'params':
            m.parameter_names = list(o['names'])
        elif k == 'observed':
            m.observed[o['name']] = o['value']
        elif k == 'flag':
            key = FLAGS[o['flag']][0]
            if o['route'] == 'ref':
                m[o['name']].uses_meta = o['value']                     # InstructionsMapper setter
                return
            if o['route'] == 'get_state':
                st = m.get_state(o['name'])['attr_dict']
            elif o['route'] == 'ref_item':
                st = m[o['name']]['attr_dict']                          # NodeReference.__getitem__
            else:
                st = m.source_net.nodes[o['name']]['attr_dict']
            if o['flag'] == 'parameter' and not o['value']:
                st.pop(key, None)                                       # presence is what counts for '_parameter'
            else:
                st[key] = o['value']
        elif k == 'copy':
            models.append(m.copy())
        elif k == 'saveload':
            m.save(prefix='.')
            models.append(type(m).load(m.name, prefix='.'))

    def _coq_op(self, o, models_before):
        k = o['op']
        h = cnat(o['h'])
        if k == 'add':
            # the state the constructor creates, as introspected after the fact would be circular: derive from the kind
            return None
        if k == 'remove':
            return '(ERemove %s %s)' % (h, cstr(o['name']))
        if k == 'become':
            return '(EBecome %s %s %s)' % (h, cstr(o['name']), cstr(o['other']))
        if k == 'edge':
            par = 'None' if o['param'] is None else '(Some %s)' % cparam(o['param'])
            return '(EAddEdge %s %s %s %s)' % (h, cstr(o['parent']), cstr(o['child']), par)
        if k == 'params':
            return '(ESetParams %s %s)' % (h, clist([cstr(x) for x in o['names']]))
        if k == 'observed':
            return '(ESetObserved %s %s (VConst %s))' % (h, cstr(o['name']), cz(o['value']))
        if k == 'flag':
            return '(ESetFlag %s %s %s %s)' % (h, cstr(o['name']), FLAGS[o['flag']][1], cbool(o['value']))
        if k == 'copy':
            return '(ECopy %s)' % h
        if k == 'saveload':
            return '(ESaveLoad %s)' % h

    def run_impl(self, case):
        import elfi
        rec = Recorder()
        models = [elfi.ElfiModel(name='m0')]
        steps = []
        summary = []
        for o in case['ops']:
            raised = None
            if o['op'] == 'observed' and not models[o['h']].has_node(o['name']):
                # the generator's shadow does not know that a private node was cleaned up: observed data
                # is only ever set for existing nodes (a plain dict write on a missing name is outside the property)
                continue
            if o['op'] == 'flag' and models[o['h']].has_node(o['name']) and o['flag'] != 'parameter' and not isinstance(
                    models[o['h']].get_state(o['name'])['attr_dict'].get('_operation'), RecOp):
                # instruction flags are only written to nodes whose operation accepts the extra arguments (the
                # recording operations); a constant or a scipy-like distribution would just fail in generate
                self.bump('flag_skipped=not-a-recording-operation')
                continue
            try:
                self._apply(models, rec, o)
            except Exception as e:
                raised = '%s: %s' % (type(e).__name__, str(e)[:120])
            if o['op'] == 'add':
                m = models[o['h']]
                if raised is None:
                    st = m.source_net.nodes[o['name']]['attr_dict']
                    # the state right after construction, with observed set through the constructor
                    coq_op = '(EAddNode %s %s %s %s %s)' % (cnat(o['h']), cstr(o['name']), cstate(o['name'], st),
                                                            clist([cstr(p) for p in o['parents']]),
                                                            'None' if o.get('observed') is None else '(Some (VConst %s))' % cz(o['observed']))
                else:
                    coq_op = '(EAddNode %s %s %s %s None)' % (
                        cnat(o['h']), cstr(o['name']),
                        cstate(o['name'], {'_output': 0} if o['kind'] == 'const' else {'_operation': 1}),
                        clist([cstr(p) for p in o['parents']]))
            else:
                coq_op = self._coq_op(o, models)
            if raised is not None:
                steps.append('{| so_op := %s; so_after := None; so_params := [] |}' % coq_op)
                summary.append([o['op'], 'raised', raised])
                break
            dumps = clist([snet_of_model(m) for m in models], sep=';\n   ')
            params = clist([clist([cstr(x) for x in m.parameter_names]) for m in models])
            steps.append('{| so_op := %s; so_after := Some %s; so_params := %s |}' % (coq_op, dumps, params))
            summary.append([o['op'], 'ok', len(models)])
            # a constructor with observed= sets observed data: emitted as a separate model step
            if o['op'] == 'add' and o.get('observed') is not None:
                pass
        gens = []
        gsum = []
        # after an exception the edited model may be left half-edited (unspecified): no generate comparison
        for h, m in (enumerate(models) if not (summary and summary[-1][1] == 'raised') else []):
            rec.reset()
            try:
                res = m.generate(2, None, seed=case['seed'])
                outs = sorted(res.items())
                gens.append('{| g_handle := %s; g_outputs := %s; g_log := %s; g_raised := false |}' % (
                    cnat(h), clist(['(%s, %s)' % (cstr(k), cvalue(v)) for k, v in outs]), clist([cstr(x) for x in rec.log])))
                gsum.append([h, 'ok', len(outs)])
            except Exception as e:
                gens.append('{| g_handle := %s; g_outputs := []; g_log := []; g_raised := true |}' % cnat(h))
                gsum.append([h, 'raised', '%s: %s' % (type(e).__name__, str(e)[:100])])
        return dict(summary=summary, generated=gsum, coq='{| e_steps := %s; e_generated := %s |}' % (
            clist(steps, sep=';\n  '), clist(gens, sep=';\n  ')))

    def nontrivial(self, case, out):
        okops = [s[0] for s in out['summary'] if s[1] == 'ok']
        if not ({'become', 'remove'} & set(okops) or ('copy' in okops and okops.index('copy') < len(okops) - 1)):
            return None
        return json.dumps(case['ops'], sort_keys=True)

    def to_coq(self, case, out):
        return out['coq']


if __name__ == '__main__':
    sys.exit(run_check(C14))
